"""C11 — union members are coherent views of one byte buffer."""
from __future__ import annotations

import copy
import io

from hypothesis import strategies as st

from pbt import common, gens, libside, refsem
from pbt.drive import Err, HarnessError, HypStage, Violation, import_repo, lib
from pbt.refsem import S, Sem, fkey

ID = "C11"
RULE = (
    "cases: generated fixed-size unions (members scalar, array, nested struct to 2 levels, anonymous struct, nested "
    "union, structs with bit-fields; packed/aligned; top level or wrapped as a struct member between two other fields; a "
    "top-level union is also parsed, alone and as U[2], at a stream position of 1-7: same values, exactly the size consumed) x "
    "generated contents x assignment histories of 2-10 steps: assign a whole member, assign through a nested path "
    "(u.s.x, u.s.inn.q), assign a field of an anonymous struct member (u.m), construct with a keyword, re-parse. Oracle "
    "(model = ONE bytearray per union): len(U) == max member size rounded to the alignment == bytes consumed; after every "
    "step every member equals the reference decode of its type from the buffer; assigning member m replaces exactly "
    "[0, size_m) by the reference encoding of m's new value; dumps() equals the buffer except bits that are padding in "
    "every member. Non-trivial = history with >= 2 assignments to different members, one of them nested; distinct by "
    "(definition, cfg, contents, history)."
)
ASSUMPTIONS = [
    "fixed-size unions only (dynamic unions raise a documented NotImplementedError on modification)",
    "wchar members are excluded: a member write can make another member's view invalid UTF-16, which the library reports as a decode error",
    "element mutation of a member array (u.b[1] = v) is not 'assigning to a member' (DESIGN §3.13)",
    "where the library's union writer (known finding KF-UNION-DUMP) is on the path of a rebuild, the case is judged against a model that encodes unions like that writer and counted as a known-finding hit, only while the finding's reproducer still reproduces",
]


@st.composite
def union_case(draw):
    o = gens.opts(dynamic=False, wchar=False, void=False, signed_flags=False, max_fields=4, max_depth=2, hazard=False, floats=draw(st.booleans()), anon_weight=3, zero_len=False, bits_weight=2, struct_weight=4)
    cfg = draw(gens.config(flip=True))
    names = gens.NameSrc(False)
    defs = []
    u = draw(gens.struct_type(o, defs, names, 2, kind="union", name=None))
    wrapped = draw(st.booleans())
    if wrapped:
        root = {"k": "st", "kind": "struct", "name": None, "fields": [{"name": "pre", "t": S("uint8"), "bits": None}, {"name": "u", "t": u, "bits": None}, {"name": "post", "t": S("uint16"), "bits": None}]}
    else:
        root = u
    defs.append({"k": "structdef", "n": "Root", "t": root})
    sem = Sem(defs, cfg)
    size = sem.size(gens.ROOT)
    data = draw(st.binary(min_size=size, max_size=size))
    ops = []
    for _ in range(draw(st.integers(2, 10))):
        k = draw(st.sampled_from(["member", "member", "nested", "nested", "nested", "reparse", "kw", "default", "deep", "deep"]))
        ops.append([k, draw(st.integers(0, 1000)), draw(st.binary(min_size=40, max_size=40)).hex()])
    case = {"defs": defs, "root": "Root", "cfg": cfg, "data": data.hex(), "wrapped": wrapped, "ops": ops}
    named_tail = 0
    for f_ in reversed(u["fields"]):
        if f_.get("name") is None:
            break
        named_tail += 1
    if not wrapped and len(u["fields"]) >= 2 and named_tail and draw(st.integers(0, 2)) == 0:
        # the union is first declared without its last k members, USED (parsed, dumped, default-constructed, compared), and
        # then grown to the full definition through the public API (add_field, one by one or as one start_update batch)
        case["grow"] = [draw(st.integers(1, min(named_tail, len(u["fields"]) - 1))), draw(st.booleans())]
    return case


@st.composite
def offset_case(draw):
    """Unions whose members sit at explicit offsets (public API: add_field(name, type, offset=N)), inside the extent."""
    pool = [S("uint8"), S("uint16"), S("uint32"), S("uint64"), S("int24"), {"k": "a", "t": S("char"), "len": ["fixed", 4]}, {"k": "a", "t": S("uint16"), "len": ["fixed", 2]},
            {"k": "st", "kind": "struct", "name": None, "fields": [{"name": "x", "t": S("uint8"), "bits": None}, {"name": "y", "t": S("uint16"), "bits": None}]}]
    cfg = draw(gens.config(align=False))
    n = draw(st.integers(2, 4))
    types = [draw(st.sampled_from(pool)) for _ in range(n)]
    sem0 = Sem([], cfg)
    size = max(sem0.size(t) for t in types)
    fields = []
    for i, t in enumerate(types):
        room = size - sem0.size(t)
        off = draw(st.integers(0, room)) if room and draw(st.booleans()) else 0
        f = {"name": f"m{i}", "t": t, "bits": None}
        if off:
            f["offset"] = off
        fields.append(f)
    defs = [{"k": "structdef", "n": "Root", "t": {"k": "st", "kind": "union", "name": None, "fields": fields}}]
    data = draw(st.binary(min_size=size, max_size=size))
    ops = [[draw(st.sampled_from(["member", "member", "nested", "kw", "reparse"])), draw(st.integers(0, 1000)), draw(st.binary(min_size=40, max_size=40)).hex()] for _ in range(draw(st.integers(2, 8)))]
    return {"defs": defs, "root": "Root", "cfg": cfg, "data": data.hex(), "wrapped": False, "ops": ops, "api_offsets": True}


def _leaf_paths(sem, t, prefix=(), depth=0):
    """(attribute path, model path, field) for assignable leaves below a struct member (no unions crossed)."""
    t = sem.res(t)
    out = []
    if t["k"] != "st" or t["kind"] != "struct":
        return out
    for i, f in enumerate(t["fields"]):
        ft = sem.res(f["t"])
        if f.get("name") is None:
            continue
        if f.get("bits") or ft["k"] in ("s", "e", "p"):
            out.append((prefix + (f["name"],), f))
        elif ft["k"] == "st" and ft["kind"] == "struct" and depth < 2:
            out += _leaf_paths(sem, ft, prefix + (f["name"],), depth + 1)
    return out


def _deep_paths(sem, u):
    """Assignable leaves below the top union whose attribute path crosses a union boundary (a nested union member, an
    anonymous union, a union inside a structure member) or an anonymous top-level member.
    -> [(attribute path, top member index, (member type, absolute offset), path inside that member, leaf field, unions crossed)]
    where 'member' is the member of the DEEPEST union on the way: the write replaces exactly that member's bytes."""
    out = []

    def leafish(f, ft):
        return bool(f.get("bits")) or ft["k"] in ("s", "e", "p")

    def walk_struct(t, abs_off, lib_path, member, rel, top_i, crossed, depth, chain=()):
        lay = sem.layout(t)
        for i, f in enumerate(t["fields"]):
            ft = sem.res(f["t"])
            off = lay["offs"][i]
            if off is None:
                return
            lp = lib_path + ((f["name"],) if f.get("name") else ())
            rp = rel + (fkey(f, i),)
            if leafish(f, ft):
                if f.get("name") and not (ft["k"] == "s" and ft["n"] == "void"):
                    out.append((lp, top_i, member, rp, f, crossed, chain))
            elif ft["k"] == "st" and ft["kind"] == "struct" and depth < 4:
                walk_struct(ft, abs_off + off, lp, member, rp, top_i, crossed, depth + 1, chain)
            elif ft["k"] == "st" and ft["kind"] == "union" and depth < 4:
                walk_union(ft, abs_off + off, lp, top_i, crossed + 1, depth + 1, chain + ((f["t"], abs_off + off),))

    def walk_union(t, abs_off, lib_path, top_i, crossed, depth, chain=()):
        for j, g in enumerate(t["fields"]):
            gt = sem.res(g["t"])
            a = abs_off + _off(g)
            lp = lib_path + ((g["name"],) if g.get("name") else ())
            if leafish(g, gt):
                if g.get("name") and not (gt["k"] == "s" and gt["n"] == "void"):
                    out.append((lp, top_i, (g["t"], a), (), g, crossed, chain))
            elif gt["k"] == "st" and gt["kind"] == "struct" and depth < 4:
                walk_struct(gt, a, lp, (g["t"], a), (), top_i, crossed, depth + 1, chain)
            elif gt["k"] == "st" and gt["kind"] == "union" and depth < 4:
                walk_union(gt, a, lp, top_i, crossed + 1, depth + 1, chain + ((g["t"], a),))

    for i, f in enumerate(u["fields"]):
        ft = sem.res(f["t"])
        a = _off(f)
        lp = (f["name"],) if f.get("name") else ()
        if ft["k"] == "st" and ft["kind"] == "struct":
            walk_struct(ft, a, lp, (f["t"], a), (), i, 0, 1)
        elif ft["k"] == "st" and ft["kind"] == "union":
            walk_union(ft, a, lp, i, 1, 1, ((f["t"], a),))
    return [p_ for p_ in out if p_[5] >= 1 or not u["fields"][p_[1]].get("name")]


def _src(raw, n):
    """Value source of at least n bytes built from the generated bytes."""
    return raw * ((n or 0) // max(1, len(raw)) + 2)


class Model:
    def __init__(self, defs, cfg, mode):
        self.sem = Sem(defs, cfg)
        self.sem.union_write = mode
        self.mode = mode

    def enc(self, t, v):
        return bytes(self.sem.encode(t, v))


def _off(f):
    return f.get("offset") or 0


def _decode_members(sem, u, buf):
    out = {}
    for i, f in enumerate(u["fields"]):
        v, _ = sem.decode(f["t"], bytes(buf), _off(f))
        out[fkey(f, i)] = v
    return out


def _load_grown(case, m):
    """Root (a union) is loaded without its last k members, used, and then completed through add_field."""
    k, batch = case["grow"]
    rootdef = [d for d in case["defs"] if d["n"] == "Root"][0]
    fields = rootdef["t"]["fields"]
    short = dict(rootdef, t=dict(rootdef["t"], fields=fields[:-k]))
    helper = {"k": "structdef", "n": "Root__tail", "t": {"k": "st", "kind": "struct", "name": None, "fields": fields[-k:]}}
    defs0 = [d for d in case["defs"] if d["n"] != "Root"] + [short]
    cs = common.load(dict(case, defs=defs0))
    r = lib(cs.load, libside.render_def(helper), compiled=False, align=bool(case["cfg"]["align"]))
    if isinstance(r, Err):
        raise Violation("definition-rejected", f"{libside.render_def(helper)}: {r}", r.where)
    tail_types = [f_.type for f_ in cs.resolve("Root__tail").__fields__]
    U = cs.Root

    def use():
        o = U(bytes((i * 37 + 1) % 251 for i in range(len(U))))
        return [o.dumps(), U().dumps(), o == U(o.dumps()), len(o), bool(U())]

    r = lib(use)
    if isinstance(r, Err):
        raise Violation("intermediate-union-unusable", f"the union declared without its last {k} members raised {r}: {common.describe(dict(case, defs=defs0))}", r.where)

    def grow():
        if batch:
            with U.start_update():
                for f_, ft in zip(fields[-k:], tail_types):
                    U.add_field(f_["name"], ft)
        else:
            for f_, ft in zip(fields[-k:], tail_types):
                U.add_field(f_["name"], ft)

    r = lib(grow)
    if isinstance(r, Err):
        raise Violation("add-field-raised", f"completing the union through add_field raised {r}: {common.describe(case)}", r.where)
    return cs


def _run_model(case, m, mode, ctx=None):
    """Execute the history against the library under one union-writer model. Raises Violation on disagreement."""
    model = Model(case["defs"], case["cfg"], mode)
    sem = model.sem
    cfg = case["cfg"]
    cs = _load_grown(case, m) if case.get("grow") else common.load(case)
    if case["cfg"].get("load_endian") and ctx is not None:
        ctx.count("endian-switched-after-load")
    if case.get("grow") and ctx is not None:
        ctx.count("union-grown-after-use:" + ("batch" if case["grow"][1] else "field-by-field"))
    root = sem.res(common.ROOT)
    u = root if not case["wrapped"] else sem.res(root["fields"][1]["t"])
    usize = sem.size(u)
    data = bytes.fromhex(case["data"])
    total = sem.size(common.ROOT)
    if lib(len, cs.Root) != total:
        raise Violation("union-size", f"len(Root) = {lib(len, cs.Root)!r}, reference {total}: {common.describe(case)}")
    s = io.BytesIO(data + b"\xee\xee")
    obj = lib(cs.Root, s)
    desc = lambda extra=None: common.describe(case, dict({"model": mode}, **(extra or {})))  # noqa: E731
    if isinstance(obj, Err):
        raise Violation("parse-raised", f"{desc()} -> {obj}", obj.where)
    if s.tell() != total:
        raise Violation("union-size", f"parsing consumed {s.tell()}, reference size {total}: {desc()}")
    if not case["wrapped"] and mode == "ideal":
        # a union reads its extent into a buffer of its own: where in the stream it starts has no bearing on how much it
        # consumes (also in aligned mode), neither for one union nor for consecutive ones
        p0 = 1 + (len(case["ops"]) + total) % 7
        s2 = io.BytesIO(bytes([0x5A]) * p0 + data + data + b"\xee\xee")
        s2.seek(p0)
        o2 = lib(cs.Root, s2)
        if isinstance(o2, Err):
            raise Violation("parse-raised", f"{desc({'stream_position': p0})} -> {o2}", o2.where)
        if s2.tell() != p0 + total:
            raise Violation("union-size", f"parsing a {total}-byte union at stream position {p0} left the stream at {s2.tell()}, expected {p0 + total}: {desc({'stream_position': p0})}")
        if libside.cplain(o2) != libside.cplain(obj):
            raise Violation("union-size", f"the same bytes parsed at stream position {p0} give {libside.cplain(o2)!r}, at position 0 {libside.cplain(obj)!r}: {desc({'stream_position': p0})}")
        s2.seek(p0)
        a2 = lib(lambda: cs.Root[2](s2))
        if isinstance(a2, Err) or s2.tell() != p0 + 2 * total or [libside.cplain(e) for e in a2] != [libside.cplain(obj)] * 2:
            raise Violation("union-size", f"Root[2] at stream position {p0}: {a2 if isinstance(a2, Err) else [libside.cplain(e) for e in a2]!r}, stream left at {s2.tell()} (expected {p0 + 2 * total}, two copies of {libside.cplain(obj)!r}): {desc({'stream_position': p0})}")
        if ctx is not None:
            ctx.count("parsed-at-nonzero-stream-position")
    off = sem.layout(root)["offs"][1] if case["wrapped"] else 0
    buf = bytearray(data[off : off + usize])
    lu = obj.u if case["wrapped"] else obj
    UT = type(lu)
    trace = []
    stats = {"assign_members": set(), "nested": 0, "ops": 0}

    def check(step):
        try:
            want = _decode_members(sem, u, buf)
        except refsem.NonCanonical:
            return False
        if refsem.has_nan(want):
            # some member views these bytes as a NaN: Python floats do not carry the payload back (as for C01: not canonical)
            return False
        for i, f in enumerate(u["fields"]):
            key = fkey(f, i)
            lf = UT.__fields__[i]
            got = lib(lambda: libside.cplain(getattr(lu, lf._name)))
            if isinstance(got, Err) or got != refsem.canon(want[key]):
                raise Violation(
                    "member-view-incoherent",
                    f"after step {step} {trace[-1] if trace else 'parse'}: member {key!r} reads {got!r}, the union's bytes {bytes(buf).hex()} decode to {refsem.canon(want[key])!r}; history {trace}: {desc()}",
                    info={"member": key},
                )
        d = lib(lu.dumps)
        if isinstance(d, Err):
            raise Violation("dumps-raised", f"after step {step}: {d}; history {trace}: {desc()}", d.where)
        if len(d) != usize:
            raise Violation("union-size", f"dumps gives {len(d)} bytes, reference size {usize}: {desc()}")
        mask = bytearray(usize)
        for f in u["fields"]:
            try:
                sem.decode(f["t"], bytes(buf), _off(f), mask)
            except (refsem.NonCanonical, refsem.Short):
                mask = None
                break
        if mask is not None:
            if mode == "largest":
                # judged against the library-like writer: dumps = re-encoding of the written member + zero fill
                wm = u["fields"][sem.union_written_member(u)]
                wkey = fkey(wm, sem.union_written_member(u))
                expect = bytearray(usize)
                b = model.enc(wm["t"], want[wkey])
                expect[: len(b)] = b
                if d != bytes(expect):
                    raise Violation("dumps-incoherent", f"after step {step}: dumps {d.hex()}, writer-model expectation {bytes(expect).hex()}; history {trace}: {desc()}")
            else:
                bad = [i for i in range(usize) if (d[i] ^ buf[i]) & mask[i]]
                if bad:
                    raise Violation("dumps-incoherent", f"after step {step}: dumps {d.hex()} differs from the union's bytes {bytes(buf).hex()} at data-carrying bytes {bad}; history {trace}: {desc()}", info={"bad": bad})
        return True

    if not check(-1):
        return None
    for step, (k, sel, hexv) in enumerate(case["ops"]):
        raw = bytes.fromhex(hexv)
        if k == "reparse":
            whole = bytearray(data)
            whole[off : off + usize] = buf
            obj2 = lib(cs.Root, bytes(whole))
            if isinstance(obj2, Err):
                raise Violation("parse-raised", f"step {step} reparse: {obj2}: {desc()}", obj2.where)
            obj = obj2
            lu = obj.u if case["wrapped"] else obj
            data = bytes(whole)
            trace.append(["reparse"])
        elif k == "default":
            # a fresh default-constructed instance: all members are views of zero bytes, whatever happened to earlier ones
            newo = lib(cs.Root)
            if isinstance(newo, Err):
                raise Violation("operation-raised", f"step {step} Root(): {newo}: {desc()}", newo.where)
            obj = newo
            lu = obj.u if case["wrapped"] else obj
            data = bytes(total)
            buf = bytearray(usize)
            trace.append(["default"])
        elif k == "kw" and not case["wrapped"]:
            i = sel % len(u["fields"])
            f = u["fields"][i]
            try:
                val, _ = sem.decode(f["t"], _src(raw, sem.size(f["t"])), 0)
            except refsem.NonCanonical:
                continue
            lf = UT.__fields__[i]
            if f.get("name") is None:
                continue
            newu = lib(lambda: UT(**{lf._name: libside.build_value(lf.type, sem, f["t"], val)}))
            if isinstance(newu, Err):
                raise Violation("operation-raised", f"step {step} U({f['name']}=...): {newu}: {desc()}", newu.where)
            lu = obj = newu
            buf = bytearray(usize)
            b = model.enc(f["t"], val)
            buf[_off(f) : _off(f) + len(b)] = b
            trace.append(["kw", fkey(f, i)])
            stats["assign_members"].add(i)
        elif k == "member":
            cands = [i for i, f in enumerate(u["fields"]) if f.get("name") is not None]
            if not cands:
                continue
            i = cands[sel % len(cands)]
            f = u["fields"][i]
            try:
                val, _ = sem.decode(f["t"], _src(raw, sem.size(f["t"])), 0)
            except refsem.NonCanonical:
                continue
            lf = UT.__fields__[i]
            r = lib(lambda: setattr(lu, lf._name, libside.build_value(lf.type, sem, f["t"], val)))
            if isinstance(r, Err):
                raise Violation("operation-raised", f"step {step} u.{f['name']} = {val!r}: {r}; history {trace}: {desc()}", r.where)
            b = model.enc(f["t"], val)
            buf[_off(f) : _off(f) + len(b)] = b
            trace.append(["member", fkey(f, i), repr(val)[:60]])
            stats["assign_members"].add(i)
        elif k == "nested":
            cands = []
            for i, f in enumerate(u["fields"]):
                ft = sem.res(f["t"])
                if ft["k"] == "st" and ft["kind"] == "struct":
                    for path, leaf in _leaf_paths(sem, ft):
                        cands.append((i, f, path, leaf))
            if not cands:
                continue
            i, f, path, leaf = cands[sel % len(cands)]
            ft = sem.res(f["t"])
            try:
                sval, _ = sem.decode(ft, bytes(buf), _off(f))
            except refsem.NonCanonical:
                continue
            if leaf.get("bits"):
                nv = int.from_bytes(raw[:8], "little") & ((1 << leaf["bits"]) - 1)
            else:
                try:
                    nv, _ = sem.decode(leaf["t"], _src(raw, sem.size(leaf["t"])), 0)
                except refsem.NonCanonical:
                    continue
            node = sval
            for p in path[:-1]:
                node = node[p]
            node[path[-1]] = nv
            # library side: walk attributes; an anonymous member's fields are reached directly on the union
            lf = UT.__fields__[i]
            holder = lu if f.get("name") is None else getattr(lu, lf._name)
            for p in path[:-1]:
                holder = getattr(holder, p)
            tgt_type = type(holder.__target__ if hasattr(holder, "__target__") else holder)
            while hasattr(tgt_type, "__target__"):
                tgt_type = type(tgt_type.__target__)
            lt = sem.res(leaf["t"])
            newobj = nv
            if lt["k"] == "e":
                hcls = holder
                while hasattr(hcls, "__target__"):
                    hcls = hcls.__target__
                ftype = type(hcls).fields[path[-1]].type if path[-1] in type(hcls).fields else None
                newobj = ftype(nv) if ftype is not None else nv
            r = lib(setattr, holder, path[-1], newobj)
            if isinstance(r, Err):
                raise Violation("operation-raised", f"step {step} u.{'.'.join(((f['name'],) if f.get('name') else ()) + path)} = {nv!r}: {r}; history {trace}: {desc()}", r.where)
            b = model.enc(ft, sval)
            buf[_off(f) : _off(f) + len(b)] = b
            trace.append(["nested", ".".join(((f["name"],) if f.get("name") else ("<anon>",)) + path), repr(nv)[:40]])
            stats["assign_members"].add(i)
            stats["nested"] += 1
        elif k == "deep":
            cands = _deep_paths(sem, u)
            if not cands:
                continue
            lp, top_i, (mt, ma), rel, leaf, crossed, chain = cands[sel % len(cands)]
            if not lp:
                continue
            lt = sem.res(leaf["t"])
            if leaf.get("bits"):
                nv = int.from_bytes(raw[:8], "little") & ((1 << leaf["bits"]) - 1)
            else:
                try:
                    nv, _ = sem.decode(leaf["t"], _src(raw, sem.size(leaf["t"])), 0)
                except refsem.NonCanonical:
                    continue
            # model, step 1: the bytes of the member of the deepest union on the path are replaced
            ideal = Model(case["defs"], case["cfg"], "ideal")
            try:
                mval, _ = sem.decode(mt, bytes(buf), ma)
            except (refsem.NonCanonical, refsem.Short):
                continue
            if rel:
                node = mval
                for p in rel[:-1]:
                    node = node[p]
                node[rel[-1]] = nv
            else:
                mval = nv
            tmp = bytearray(buf)
            bm = ideal.enc(mt, mval)
            tmp[ma : ma + len(bm)] = bm
            # step 2: every enclosing NESTED union hands its bytes upwards through its writer, innermost first (under the
            # ideal model these are the same bytes; under the writer-faithful model each level loses its blind spots)
            if mode == "largest":
                for ut, ua in reversed(chain):
                    try:
                        uval, _ = sem.decode(ut, bytes(tmp), ua)
                    except (refsem.NonCanonical, refsem.Short):
                        break
                    ub = model.enc(ut, uval)
                    tmp[ua : ua + len(ub)] = ub
            topf = u["fields"][top_i]
            try:
                tval, _ = sem.decode(topf["t"], bytes(tmp), _off(topf))
            except (refsem.NonCanonical, refsem.Short):
                continue
            # library side
            holder = lu
            for name in lp[:-1]:
                holder = getattr(holder, name)
            newobj = nv
            if lt["k"] == "e" and not leaf.get("bits"):
                hc = holder
                while hasattr(hc, "__target__"):
                    hc = hc.__target__
                ftype = type(hc).fields[lp[-1]].type if lp[-1] in type(hc).fields else None
                newobj = ftype(nv) if ftype is not None else nv
            elif lt["k"] == "e":
                hc = holder
                while hasattr(hc, "__target__"):
                    hc = hc.__target__
                ftype = type(hc).fields[lp[-1]].type if lp[-1] in type(hc).fields else None
                newobj = ftype(nv) if ftype is not None and hasattr(ftype, "__members__") else nv
            r = lib(setattr, holder, lp[-1], newobj)
            if isinstance(r, Err):
                raise Violation("operation-raised", f"step {step} u.{'.'.join(lp)} = {nv!r}: {r}; history {trace}: {desc()}", r.where)
            b = model.enc(topf["t"], tval)
            buf[_off(topf) : _off(topf) + len(b)] = b
            trace.append(["deep", ".".join(lp), repr(nv)[:40], f"crossing {crossed} union(s)"])
            stats["assign_members"].add(top_i)
            stats["nested"] += 1
            stats["deep"] = stats.get("deep", 0) + 1
        else:
            continue
        stats["ops"] += 1
        if not check(step):
            return stats
        if case["wrapped"] and k != "kw":
            poff = sem.layout(root)["offs"][2]
            if libside.plain(obj.pre) != data[0] or lib(lambda: libside.plain(obj.post)) != int.from_bytes(data[poff : poff + 2], "little" if cfg["endian"] == "<" else "big"):
                raise Violation("neighbour-field-changed", f"after step {step}: fields around the union changed: pre={obj.pre!r} post={obj.post!r}; history {trace}: {desc()}")
    return stats


def run_case(case, ctx):
    m = import_repo()
    try:
        stats = _run_model(case, m, "ideal", ctx)
    except Violation as v:
        if v.kind in ("member-view-incoherent", "dumps-incoherent"):
            try:
                _run_model(case, m, "largest")
            except Violation:
                raise v from None
            # the library matches a model in which unions are written by their first largest member only
            raise Violation("explained-by-union-writer:" + v.kind, v.detail, info=v.info) from None
        raise
    if stats is None:
        ctx.count("contents:noncanonical")
        return
    sem = Sem(case["defs"], case["cfg"])
    feats = common.model_features(sem, common.ROOT)
    for f in feats & {"nested-union", "nested-struct", "anonymous-member", "bit-field", "array", "pointer", "enum", "float"}:
        ctx.count("has:" + f)
    ctx.count("wrapped" if case["wrapped"] else "top-level")
    ctx.count("cfg:" + ("aligned" if case["cfg"]["align"] else "packed"))
    ctx.count("ops", stats["ops"])
    if stats["nested"]:
        ctx.count("history:has-nested-assignment")
    if stats.get("deep"):
        ctx.count("history:has-assignment-across-a-union-boundary")
    if len(stats["assign_members"]) >= 2 and stats["nested"]:
        ctx.mark_nontrivial([case["defs"], case["cfg"], case["data"], case["ops"]])
        ctx.sample(common.describe(case, {"ops": [o[:2] for o in case["ops"]]}), "wrapped" if case["wrapped"] else "top")


def stages(tier):
    q = tier == "quick"
    return [
        HypStage("histories", union_case, examples=600 if q else 8000, shards=10 if q else 16),
        HypStage("explicit-offsets", offset_case, examples=400 if q else 3000, shards=2 if q else 4),
    ]


def _kf_union_writer(case, v):
    return v.kind.startswith("explained-by-union-writer:")


KNOWN_PREDICATES = {"union-dump-largest-member-only": _kf_union_writer}
