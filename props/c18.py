"""C18 — incrementally built or self-referential structures equal the one-shot definition."""
from __future__ import annotations

import io

from hypothesis import strategies as st

from pbt import common, gens, libside, refsem
from pbt.drive import Err, HarnessError, HypStage, Violation, import_repo, lib
from pbt.refsem import S

ID = "C18"
RULE = (
    "cases: generated field sequences (scalars, bit-fields, arrays incl. dynamic ones, nested and anonymous members, enums, "
    "pointers, optionally self-referential 'Root *next' / 'Root *arr[n]' members) x {compiled, interpreted} x {packed, "
    "aligned} x a generated split of the fields into commits (single add_field calls, batches inside start_update(), "
    "mixed). The same logical structure is built four ways - (a) text 'struct Root {...};' (pre-register-then-extend "
    "path), (b) text 'typedef struct {...} Root;' (one-shot factory), (c) API _make_struct one-shot (+compile), (d) API "
    "incremental following the split - each from fresh Field objects. Oracle: equal layout signature (size, alignment, "
    "dynamic, offsets, fields/lookup keys and order), equal __compiled__, identical generated reader source, equal parse "
    "results, recorded sizes, tell() and dumps on the constructive input and on a truncation, equal default/eq/bool "
    "behaviour; after EVERY intermediate commit the incremental class has the layout of the one-shot class of that prefix. "
    "Non-trivial = >= 2 commits with a kind change across a commit boundary (static->dynamic, first bit-field, alignment "
    "increase, first anonymous member); distinct by (definition, cfg, split)."
)
ASSUMPTIONS = [
    "every construction gets fresh Field objects (a Field keeps its computed offset and a preset offset means 'explicit')",
    "self reference is a pointer to the structure being defined; for it only (a) and (d) are compared (a one-shot API construction cannot name itself)",
]


@st.composite
def build_case(draw):
    root_union = draw(st.integers(0, 5)) == 0  # the structure being extended is a union (same add_field / commit machinery)
    o = gens.opts(max_fields=7, max_depth=1, eof=False, signed_flags=False, unions=draw(st.booleans()), dynamic=not root_union)
    case = draw(gens.input_case(o, tail=False, root_kind="union" if root_union else "struct"))
    root = [d for d in case["defs"] if d["n"] == "Root"][0]["t"]
    selfref = draw(st.integers(0, 3)) == 0 and not root_union
    if selfref:
        extra = [{"name": "next", "t": {"k": "p", "t": {"k": "ref", "n": "Root"}}, "bits": None}]
        if draw(st.booleans()):
            extra.append({"name": "ring", "t": {"k": "a", "t": {"k": "p", "t": {"k": "ref", "n": "Root"}}, "len": ["fixed", 2]}, "bits": None})
        used = {f["name"] for f in root["fields"]}
        extra = [e for e in extra if e["name"] not in used]
        fl = root["fields"]
        # never split a run of bit-fields (that would re-pack the following widths into other units)
        allowed = [i for i in range(len(fl) + 1) if not (0 < i < len(fl) and fl[i - 1].get("bits") and fl[i].get("bits"))]
        pos = draw(st.sampled_from(allowed))
        root["fields"][pos:pos] = extra
        # regenerate a consistent input for the changed definition
        sem = refsem.Sem(case["defs"], case["cfg"])
        v = gens.gen_value(draw, sem, gens.ROOT)
        enc = bytes(sem.encode(gens.ROOT, v))
        mask = bytearray(len(enc))
        sem.decode(gens.ROOT, enc, 0, mask)
        case["data"] = gens.fill_garbage(draw, enc, mask, tail=False).hex()
    case["selfref"] = selfref
    n = len(root["fields"])
    # split: list of batch sizes, and for each batch whether it is a start_update() block or single add_field calls
    sizes = []
    left = n
    while left:
        k = draw(st.integers(1, min(left, 3)))
        sizes.append(k)
        left -= k
    case["split"] = [[k, draw(st.booleans())] for k in sizes]
    return case


def _tname(n):
    if "anonymous" in n:
        return "<anon>"
    for alias in ("RootD", "RootC", "Prefix"):
        n = n.replace(alias, "Root")
    return n


def _layout(T):
    return {
        "size": T.size, "alignment": T.alignment, "dynamic": T.dynamic,
        "fields": [(n, f.offset, f.bits, _tname(f.type.__name__)) for n, f in T.fields.items()],
        "lookup": [k if "anonymous" not in k else "<anon>" for k in T.lookup],
        "nfields": len(T.__fields__),
    }


def _fresh_fields(m, fields, self_from=None, self_to=None):
    out = []
    for f in fields:
        t = f.type
        out.append(m.Field(f.name, t, bits=f.bits))
    return out


def _retarget(m, cs, t, old, new):
    """Replace pointers to `old` (the text-built Root) by pointers to `new` (the class being built)."""
    if issubclass(t, m.Pointer) and t.type is old:
        return cs._make_pointer(new)
    if issubclass(t, m.Array) and issubclass(t.type, m.Pointer) and t.type.type is old:
        return cs._make_array(cs._make_pointer(new), t.num_entries)
    return t


def run_case(case, ctx):
    m = import_repo()
    from dissect.cstruct import compiler

    ref = common.reference(case)
    if ref["status"] != "ok":
        ctx.count("input:" + ref["status"])
        return
    sem = ref["sem"]
    cfg = case["cfg"]
    compiled, align = cfg["compiled"], cfg["align"]
    text = libside.render(case["defs"])
    cs = m.cstruct(endian=cfg["endian"], pointer=cfg["ptr"])
    r = lib(cs.load, text, compiled=compiled, align=align)
    if isinstance(r, Err):
        raise Violation("definition-rejected", f"{text}: {r}", r.where)
    A = cs.Root
    builds = {"text-struct": A}
    is_union = issubclass(A, m.Union)
    make = cs._make_union if is_union else cs._make_struct
    if is_union:
        ctx.count("root:union")
    desc = lambda extra=None: common.describe(case, dict({"split": case["split"]}, **(extra or {})))  # noqa: E731
    selfref = case["selfref"]
    if not selfref:
        # (b) typedef one-shot
        root_def = [d for d in case["defs"] if d["n"] == "Root"][0]
        others = [d for d in case["defs"] if d["n"] != "Root"]
        body = "".join(libside.render_field(f) for f in root_def["t"]["fields"])
        text_b = libside.render(others) + f"typedef {'union' if is_union else 'struct'} {{\n{body}}} Root;\n"
        cs_b = m.cstruct(endian=cfg["endian"], pointer=cfg["ptr"])
        r = lib(cs_b.load, text_b, compiled=compiled, align=align)
        if isinstance(r, Err):
            raise Violation("definition-rejected", f"typedef form: {text_b}: {r}", r.where)
        builds["text-typedef"] = cs_b.Root
        # (c) API one-shot
        C = lib(make, "RootC", _fresh_fields(m, A.__fields__), align=align)
        if isinstance(C, Err):
            raise Violation("api-one-shot-raised", f"_make_struct raised {C}: {desc()}", C.where)
        if compiled:
            C = compiler.compile(C)
        builds["api-one-shot"] = C
    # (d) API incremental
    D = make("RootD", [], align=align)
    if compiled:
        D = compiler.compile(D)
    src = list(A.__fields__)
    bystander = [None]
    i = 0
    commits = 0
    kinds_before = None
    kind_change = False
    for k, block in case["split"]:
        batch = src[i : i + k]
        i += k

        def add(f):
            t = _retarget(m, cs, f.type, A, D) if selfref else f.type
            D.add_field(f.name, t, bits=f.bits)

        if block:
            # ANOTHER structure has its own batch open at the same time (either one may end first): batches of different
            # structures do not share staging state
            if bystander[0] is None:
                bystander[0] = make("Bystander", [], align=align)
                if compiled:
                    bystander[0] = compiler.compile(bystander[0])
            B = bystander[0]

            def run_block():
                nb = len(B.__fields__)
                if commits % 2:
                    with D.start_update(), B.start_update():
                        B.add_field(f"b{nb}", cs.uint16)
                        for f in batch:
                            add(f)
                        B.add_field(f"b{nb + 1}", cs.uint8)
                else:
                    with B.start_update(), D.start_update():
                        for f in batch:
                            add(f)
                        B.add_field(f"b{nb}", cs.uint16)
                        B.add_field(f"b{nb + 1}", cs.uint8)

            r = lib(run_block)
            commits += 1
            if not isinstance(r, Err):
                want_b = [("b%d" % j, "uint16" if j % 2 == 0 else "uint8") for j in range(len(B.__fields__))]
                got_b = [(f_._name, f_.type.__name__) for f_ in B.__fields__]
                nbf = len(got_b)
                BP = make("BystanderOneShot", [m.Field(n_, getattr(cs, t_)) for n_, t_ in want_b], align=align)
                if nbf % 2 or got_b != want_b or _layout(BP) != _layout(B) or len(B(bytes(64)).dumps()) != BP.size:
                    raise Violation("stale-intermediate-state", f"a second structure extended in a start_update() batch open at the same time has members {got_b} (layout {_layout(B)}), expected {want_b} (layout {_layout(BP)}): {desc()}")
                ctx.count("simultaneous-batches-on-two-structures")
        else:
            r = None
            for f in batch:
                r = lib(add, f)
                commits += 1
                if isinstance(r, Err):
                    break
        if isinstance(r, Err):
            raise Violation("incremental-build-raised", f"adding fields {[f.name for f in batch]} (start_update={block}) raised {r}: {desc()}", r.where)
        # every intermediate state equals the one-shot class of that prefix
        if not selfref:
            P = lib(make, "Prefix", _fresh_fields(m, src[:i]), align=align)
            if isinstance(P, Err):
                raise Violation("api-one-shot-raised", f"_make_struct(prefix of {i}) raised {P}: {desc()}", P.where)
            if compiled:
                P = compiler.compile(P)
            lp, ld = _layout(P), _layout(D)
            if lp != ld:
                raise Violation("stale-intermediate-state", f"after committing {i} fields: incremental {ld}, one-shot prefix {lp}: {desc()}")
            if bool(getattr(P, "__compiled__", False)) != bool(getattr(D, "__compiled__", False)):
                raise Violation("compiled-flag-differs", f"after {i} fields: incremental __compiled__={D.__compiled__}, one-shot {P.__compiled__}: {desc()}")
        # the intermediate class is used (default and keyword construction) before it is extended further
        inter = lib(D)
        if isinstance(inter, Err):
            raise Violation("instance-behaviour-differs", f"after committing {i} fields: default construction raised {inter}: {desc()}", inter.where)
        if D.__fields__ and D.__fields__[0]._name and not D.__fields__[0].bits and isinstance(getattr(inter, D.__fields__[0]._name, None), int):
            lib(lambda: D(**{D.__fields__[0]._name: 1}))
        libside.touch_mutable(inter)
        # ... and used for everything an instance is used for: whatever this leaves behind must not survive the next commit
        def prime():
            buf = ref["data"] + bytes(64)
            x = D(io.BytesIO(buf))
            x.dumps()
            D().dumps()
            _ = (x == D(buf), bool(x), len(D) if not D.dynamic else None, repr(x))
            try:
                hash(x)
            except TypeError:
                pass

        lib(prime)
        kinds = (D.dynamic, any(f.bits for f in D.__fields__), D.alignment, any(f.name is None for f in D.__fields__))
        if kinds_before is not None and kinds != kinds_before:
            kind_change = True
        kinds_before = kinds
    builds["api-incremental"] = D

    # ---- pairwise comparison against (a)
    data = ref["data"][: ref["end"]]
    if len(data) < ref["end"]:
        data += bytes(ref["end"] - len(data))
    inputs = [data, data[: max(0, len(data) - 1)], data[: len(data) // 2]]
    base_layout = _layout(A)
    base_src = getattr(getattr(A._read, "__func__", None), "__source__", None)
    base_out = []
    for inp in inputs:
        s = io.BytesIO(inp)
        r = lib(A, s)
        base_out.append((r, s.tell()))
    base_default = lib(lambda: libside.cplain(A()))
    for name, T in builds.items():
        if T is A:
            continue
        lt = _layout(T)
        if lt != base_layout:
            raise Violation("layout-differs", f"{name}: {lt} vs text-struct {base_layout}: {desc({'construction': name})}")
        if bool(getattr(T, "__compiled__", False)) != bool(getattr(A, "__compiled__", False)):
            raise Violation("compiled-flag-differs", f"{name}: __compiled__={getattr(T, '__compiled__', None)}, text-struct {A.__compiled__}: {desc({'construction': name})}")
        tsrc = getattr(getattr(T._read, "__func__", None), "__source__", None)
        if tsrc != base_src:
            raise Violation("generated-reader-differs", f"{name}: generated source differs from text-struct:\n--- {name}\n{tsrc}\n--- text-struct\n{base_src}\n{desc({'construction': name})}")
        for inp, (br, btell) in zip(inputs, base_out):
            s = io.BytesIO(inp)
            r = lib(T, s)
            if isinstance(br, Err) != isinstance(r, Err):
                raise Violation("parse-outcome-differs", f"{name}: {r!r} vs text-struct {br!r} on {inp.hex()}: {desc({'construction': name})}")
            if isinstance(r, Err):
                if r.type != br.type:
                    raise Violation("parse-outcome-differs", f"{name}: raises {r.type}, text-struct raises {br.type} on {inp.hex()}: {desc({'construction': name})}")
                continue
            if libside.cplain(r) != libside.cplain(br) or s.tell() != btell:
                raise Violation("parse-result-differs", f"{name}: {libside.cplain(r)!r} @{s.tell()} vs text-struct {libside.cplain(br)!r} @{btell}: {desc({'construction': name})}")
            if dict(getattr(r, "_sizes", {}) or {}) != dict(getattr(br, "_sizes", {}) or {}):
                raise Violation("sizes-differ", f"{name}: {r._sizes} vs {br._sizes}: {desc({'construction': name})}")
            d1, d2 = lib(r.dumps), lib(br.dumps)
            if isinstance(d1, Err) != isinstance(d2, Err) or (not isinstance(d1, Err) and d1 != d2):
                raise Violation("dumps-differs", f"{name}: dumps {d1!r} vs text-struct {d2!r}: {desc({'construction': name})}")
            if lib(bool, r) != lib(bool, br):
                raise Violation("instance-behaviour-differs", f"{name}: bool differs: {desc({'construction': name})}")
            hr, hb = lib(hash, r), lib(hash, br)
            if name != "text-typedef" and (isinstance(hr, Err) != isinstance(hb, Err) or (not isinstance(hr, Err) and hr != hb and not refsem.has_nan(libside.plain(r)))):
                # (the typedef form lives in another cstruct object: its enum members hash by their own class)
                raise Violation("instance-behaviour-differs", f"{name}: hash {hr!r} vs text-struct {hb!r} for the same parsed values: {desc({'construction': name})}")
            if lib(lambda: r == T(io.BytesIO(inp))) is not True and not refsem.has_nan(libside.plain(r)):
                raise Violation("instance-behaviour-differs", f"{name}: two parses of the same bytes are not equal: {desc({'construction': name})}")
        # the generated __eq__ / __bool__ look at EVERY field, the last one included
        lastf = T.__fields__[-1] if T.__fields__ else None
        if lastf is not None and not lastf.bits and not is_union:  # (a union's members are views of one buffer: C11's subject)
            zero = lib(T)
            lv = None if isinstance(zero, Err) else getattr(zero, lastf._name, None)
            if isinstance(lv, int) and not isinstance(lv, bool) and int(lv) == 0 and not hasattr(type(lv), "__members__"):
                one = T()
                setattr(one, lastf._name, 1)
                if lib(bool, one) is not True or lib(lambda: one == T()) is not False:
                    raise Violation("instance-behaviour-differs", f"{name}: an instance whose only non-zero field is the last one ({lastf._name}): bool {lib(bool, one)!r}, == default {lib(lambda: one == T())!r}: {desc({'construction': name})}")
                ctx.count("last-field:bool-and-eq")
        # defaults are per instance: changing one default instance's arrays / nested members in place leaves the next one alone
        touched = lib(lambda: libside.touch_mutable(T()))
        if isinstance(touched, Err):
            raise Violation("instance-behaviour-differs", f"{name}: changing a default instance in place raised {touched}: {desc({'construction': name})}", touched.where)
        if touched:
            ctx.count("defaults:mutable-touched")
        dflt = lib(lambda: libside.cplain(T()))
        if isinstance(dflt, Err) != isinstance(base_default, Err) or (not isinstance(dflt, Err) and dflt != base_default):
            raise Violation("instance-behaviour-differs", f"{name}: default instance {dflt!r} vs text-struct {base_default!r}: {desc({'construction': name})}")
    if selfref and "next" in A.fields and not A.dynamic and not align:
        # rec1(next -> rec2) + rec2: the pointer dereferences to an instance of the SAME class as the structure holding it
        size = len(A)
        noff = A.fields["next"].offset
        psz = len(A.fields["next"].type)
        bo = "little" if cfg["endian"] == "<" else "big"
        if noff is not None and size + 1 < (1 << (8 * psz)):
            rec = bytearray(data[:size] + bytes(max(0, size - len(data))))
            rec2 = bytes(rec)
            rec[noff : noff + psz] = (size + 1).to_bytes(psz, bo)
            img = bytes(rec) + b"\xaa" + rec2
            outs = []
            for name, T in builds.items():
                o_ = lib(T, io.BytesIO(img))
                tgt = o_ if isinstance(o_, Err) else lib(o_.next.dereference)
                direct = lib(T, io.BytesIO(img[size + 1 :]))
                if isinstance(tgt, Err) or isinstance(direct, Err) or type(tgt) is not T or libside.cplain(tgt) != libside.cplain(direct):
                    raise Violation("self-reference-differs", f"{name}: next.dereference() gives {tgt!r} (type {type(tgt).__name__}), parsing the target bytes directly gives {direct!r} (class {T.__name__}): {desc({'construction': name})}")
                outs.append(libside.cplain(tgt))
            if any(o_ != outs[0] for o_ in outs):
                raise Violation("self-reference-differs", f"dereferenced targets differ between constructions: {outs}: {desc()}")
            ctx.count("selfref:pointer-followed")
    ctx.count(f"commits:{min(commits, 6)}")
    ctx.count("selfref" if selfref else "plain")
    ctx.count("reader:" + ("compiled" if getattr(A, "__compiled__", False) else "interpreted"))
    ctx.count("cfg:" + ("aligned" if align else "packed"))
    if any(b for _, b in case["split"]) and any(not b for _, b in case["split"]):
        ctx.count("split:mixed")
    if kind_change:
        ctx.count("kind-change-across-commit")
    if commits >= 2 and kind_change:
        ctx.mark_nontrivial([case["defs"], cfg, case["split"]])
        ctx.sample(desc({"constructions": sorted(builds)}), "selfref" if selfref else "plain")


def stages(tier):
    q = tier == "quick"
    return [HypStage("builds", build_case, examples=500 if q else 12000, shards=8 if q else 16)]
