"""C04 — structure layout follows C rules; declared size equals bytes read and written."""
from __future__ import annotations

import ctypes
import io
import itertools

from hypothesis import strategies as st

from pbt import common, gens, libside, refsem
from pbt.drive import EnumStage, Err, HarnessError, HypStage, Violation, lib
from pbt.refsem import S, fkey

ID = "C04"
RULE = (
    "cases: generated fixed-size definitions (scalars, arrays incl. zero-length and multi-dimensional, nested and anonymous "
    "structs/unions to depth 3, pointers; bit-fields only for the size-agreement clause) x {packed, aligned} x pointer "
    "width, plus an exhaustive enumeration of all sequences of <=3 (quick) / <=4 (thorough) fields over 12 base kinds in "
    "both modes. Oracle 1: a ctypes Structure/Union with identical members (_pack_=1 for packed) - sizeof, alignment and "
    "every member offset, recursively; oracle 2: the independent reference layout for what ctypes cannot express; oracle "
    "3: agreement of len(T), sizeof(T) inside an expression, bytes consumed by parsing, len(T().dumps()), "
    "len(parsed.dumps()). Non-trivial = aligned with >= 1 padding byte, or nesting, or an array of structures; distinct by "
    "(definition, cfg)."
)
ASSUMPTIONS = [
    "ctypes on this platform (x86-64 System V) is the C ABI oracle for the C-representable subset; wchar is mapped to uint16 and pointers to the unsigned integer of the configured width",
    "int24/int48/int128 and float16 have no C ABI: the library's documented alignment table (4/8/16, 2) is used through the reference model",
]

CT = {
    "int8": ctypes.c_int8, "uint8": ctypes.c_uint8, "int16": ctypes.c_int16, "uint16": ctypes.c_uint16,
    "int32": ctypes.c_int32, "uint32": ctypes.c_uint32, "int64": ctypes.c_int64, "uint64": ctypes.c_uint64,
    "float": ctypes.c_float, "double": ctypes.c_double, "char": ctypes.c_char, "wchar": ctypes.c_uint16,
}


def ctypes_of(sem, t, packed, counter):
    """ctypes type with the same members, or None when C cannot express it."""
    t = sem.res(t)
    k = t["k"]
    if k == "s":
        return CT.get(t["n"])
    if k == "e":
        return CT.get(sem.enumdef(t)["base"])
    if k == "p":
        return CT[sem.ptr]
    if k == "a":
        e = ctypes_of(sem, t["t"], packed, counter)
        if e is None or t["len"][0] != "fixed":
            return None
        return e * t["len"][1]
    if k == "st":
        fields = []
        anon = []
        for i, f in enumerate(t["fields"]):
            if f.get("bits"):
                return None
            ft = ctypes_of(sem, f["t"], packed, counter)
            if ft is None:
                return None
            name = f["name"] if f.get("name") else f"_anon{i}"
            if not f.get("name"):
                anon.append(name)
            fields.append((f"m{i}_{name}", ft))
        counter[0] += 1
        ns = {"_fields_": fields}
        if packed:
            ns["_pack_"] = 1
        base = ctypes.Union if t["kind"] == "union" else ctypes.Structure
        return type(f"CT{counter[0]}", (base,), ns)
    return None


def _compare_layout(sem, t, T, ct, path, aligned, out):
    """Library type T vs reference (and ctypes when given), recursively through nested structures."""
    t = sem.res(t)
    if t["k"] == "a":
        if not hasattr(T, "num_entries"):
            out.append(f"{path}: the library type is {T.__name__} (not an array), the definition has an array here")
            return
        return _compare_layout(sem, t["t"], T.type, ct._type_ if ct is not None else None, path + "[]", aligned, out)
    if t["k"] != "st":
        return
    lay = sem.layout(t)
    if not hasattr(T, "__fields__"):
        out.append(f"{path}: the library type is {T.__name__} (not a structure), the definition has a {t['kind']} here")
        return
    lib_fields = list(T.__fields__)
    if len(lib_fields) != len(t["fields"]):
        out.append(f"{path}: {len(lib_fields)} members {[f._name for f in lib_fields]}, the definition has {len(t['fields'])} ({T.__name__} is another type?)")
        return
    if T.size != lay["size"]:
        out.append(f"{path}: size {T.size}, reference {lay['size']}")
    if aligned and T.alignment != lay["align"]:
        out.append(f"{path}: alignment {T.alignment}, reference {lay['align']}")
    if ct is not None:
        if ctypes.sizeof(ct) != T.size:
            out.append(f"{path}: size {T.size}, C compiler (ctypes) {ctypes.sizeof(ct)}")
        if aligned and ctypes.alignment(ct) != T.alignment:
            out.append(f"{path}: alignment {T.alignment}, C compiler (ctypes) {ctypes.alignment(ct)}")
    for i, (f, lf) in enumerate(zip(t["fields"], lib_fields)):
        want = lay["offs"][i]
        got = lf.offset
        if t["kind"] == "union":
            got = got or 0
        if f.get("bits"):
            continue
        if got != want:
            out.append(f"{path}.{fkey(f, i)}: offset {got}, reference {want}")
        sub = None
        if ct is not None:
            cname, ctype_f = ct._fields_[i]
            coff = getattr(ct, cname).offset
            if got != coff:
                out.append(f"{path}.{fkey(f, i)}: offset {got}, C compiler (ctypes) {coff}")
            sub = ctype_f
        _compare_layout(sem, f["t"], lf.type, sub, f"{path}.{fkey(f, i)}", aligned, out)


def run_case(case, ctx):
    if case.get("reuse"):
        return _run_reuse(case, ctx)
    if case.get("alias"):
        return _run_alias(case, ctx)
    if case.get("sizeof_history"):
        return _run_sizeof_history(case, ctx)
    if case.get("dynlayout"):
        return _run_dynlayout(case, ctx)
    cs = common.load(case)
    _check_layout(case, ctx, cs, "Root", "SizeProbe")


def _check_layout(case, ctx, cs, rootname, probe, stats=True):
    sem = refsem.Sem(case["defs"], case["cfg"])
    aligned = case["cfg"]["align"]
    T = getattr(cs, rootname)
    ROOT = {"k": "ref", "n": rootname}
    root = sem.res(ROOT)
    ct = ctypes_of(sem, root, not aligned, [0])
    ctx.count("oracle:ctypes" if ct is not None else "oracle:reference-only")
    out = []
    _compare_layout(sem, root, T, ct, "Root", aligned, out)
    if out:
        raise Violation("layout-differs", f"{out[:6]}: {common.describe(case)}")
    size = sem.size(ROOT)
    if size is None:
        raise HarnessError("C04 generator produced a dynamic definition")
    # five numbers
    nums = {"len(T)": lib(len, T)}
    cs2 = lib(cs.load, f"struct {probe} {{ char x[sizeof({rootname})]; }};", compiled=case["cfg"]["compiled"], align=aligned)
    nums["sizeof(T) in expression"] = cs2 if isinstance(cs2, Err) else lib(len, getattr(cs, probe))
    data = b"A" * (size + 16)  # valid UTF-16 / finite floats at every alignment
    s = io.BytesIO(data)
    obj = lib(T, s)
    if isinstance(obj, Err):
        raise Violation("fixed-size-parse-raised", f"parsing {size + 16} bytes raised {obj}: {common.describe(case)}", obj.where)
    nums["bytes consumed"] = s.tell()
    d0 = lib(lambda: len(T().dumps()))
    nums["len(T().dumps())"] = d0
    d1 = lib(lambda: len(obj.dumps()))
    nums["len(parsed.dumps())"] = d1
    bad = {k: (repr(v) if isinstance(v, Err) else v) for k, v in nums.items() if v != size}
    if bad:
        kinds = sorted(k for k in bad)
        errs = [v for v in nums.values() if isinstance(v, Err)]
        raise Violation(
            "size-disagreement:" + ("raised" if errs else "number"),
            f"reference size {size}; disagreeing: {bad}; all: { {k: (repr(v) if isinstance(v, Err) else v) for k, v in nums.items()} }: {common.describe(case)}",
            errs[0].where if errs else "",
            {"which": kinds, "exc": errs[0].type if errs else None},
        )
    if not stats:
        return
    feats = common.model_features(sem, ROOT)
    for f in feats:
        if not f.startswith("fields:"):
            ctx.count("has:" + f)
    ctx.count("cfg:aligned" if aligned else "cfg:packed")
    packed_size = refsem.Sem(case["defs"], dict(case["cfg"], align=False)).size(ROOT)
    padded = aligned and size > packed_size
    if padded:
        ctx.count("aligned:has-padding")
    if padded or feats & {"nested-struct", "nested-union", "array:of-struct"}:
        ctx.mark_nontrivial([case["defs"], case["cfg"]])
        ctx.sample(common.describe(case, {"size": size, "offsets": sem.layout(root)["offs"]}), "ctypes" if ct is not None else "ref")


@st.composite
def dynlayout_case(draw):
    """Structures with dynamically sized members (nested, in arrays, first / middle / last): the alignment of a structure
    is that of its most aligned member whether or not that member has a fixed size, members in front of the first
    dynamically sized one have C offsets, and a nested structure is placed according to ITS alignment."""
    o = gens.opts(dynamic=True, bits=draw(st.integers(0, 3)) == 0, void=False, max_depth=3, max_fields=5, eof=False, floats=True, array_weight=True)
    d = draw(gens.definition(o))
    cfg = draw(gens.config())
    cfg["align"] = draw(st.integers(0, 4)) != 0
    return {"defs": d["defs"], "root": "Root", "cfg": cfg, "dynlayout": True}


def _run_dynlayout(case, ctx):
    cs = common.load(case)
    sem = refsem.Sem(case["defs"], case["cfg"])
    aligned = case["cfg"]["align"]
    ROOT = {"k": "ref", "n": "Root"}
    root = sem.res(ROOT)
    out = []
    _compare_layout(sem, root, cs.Root, None, "Root", aligned, out)
    for d in case["defs"]:
        if d["k"] == "structdef" and d["n"] != "Root":
            _compare_layout(sem, d["t"], getattr(cs, d["n"]), None, d["n"], aligned, out)
    if out:
        raise Violation("layout-differs", f"{out[:6]}: {common.describe(case)}")
    feats = common.model_features(sem, ROOT)
    ctx.count("dynlayout:aligned" if aligned else "dynlayout:packed")
    if "dynamic" in feats:
        ctx.count("dynlayout:dynamic-root")
        # the most aligned member of some structure is a dynamically sized one
        def widest_is_dynamic(t):
            t = sem.res(t)
            if t["k"] == "a":
                return widest_is_dynamic(t["t"])
            if t["k"] != "st":
                return False
            al = [(sem.align(f["t"]), sem.size(f["t"]) is None) for f in t["fields"]]
            top = max((a for a, _ in al), default=1)
            return (top > 1 and all(dyn for a, dyn in al if a == top)) or any(widest_is_dynamic(f["t"]) for f in t["fields"])

        if aligned and widest_is_dynamic(root):
            ctx.count("dynlayout:widest-alignment-only-from-dynamic-member")
            ctx.mark_nontrivial([case["defs"], case["cfg"]])
            ctx.sample(common.describe(case, {"alignment": sem.layout(root)["align"], "offsets": sem.layout(root)["offs"]}), "dynlayout")


KINDS = [
    S("uint8"), S("int16"), S("uint32"), S("int64"), S("char"), S("wchar"), S("float"), S("double"),
    {"k": "a", "t": S("uint16"), "len": ["fixed", 3]},
    {"k": "a", "t": S("char"), "len": ["fixed", 5]},
    {"k": "st", "kind": "struct", "name": None, "fields": [{"name": "p", "t": S("uint8"), "bits": None}, {"name": "q", "t": S("uint32"), "bits": None}]},
    {"k": "p", "t": S("uint8")},
]


def seq_cases(maxlen):
    def gen():
        for n in range(1, maxlen + 1):
            for combo in itertools.product(range(len(KINDS)), repeat=n):
                for align in (False, True):
                    fields = [{"name": f"f{j}", "t": KINDS[ki], "bits": None} for j, ki in enumerate(combo)]
                    yield {
                        "defs": [{"k": "structdef", "n": "Root", "t": {"k": "st", "kind": "struct", "name": None, "fields": fields}}],
                        "root": "Root",
                        "cfg": {"endian": "<", "align": align, "ptr": ["uint64", "uint32", "uint16", "uint8"][sum(combo) % 4], "compiled": bool(sum(combo) % 2)},
                    }

    return gen


COUNT_SPELLINGS = {1: ["1", "0x1", "N1", "(N1)", "1u", "sizeof(uint8)"], 2: ["2", "0x2", "N1*2", "N1 + 1", "1 << 1", "sizeof(uint16)", "N2"], 3: ["3", "N1 + N2", "(N2 + 1)", "0x3", "N4 - 1"],
                   4: ["4", "N2*2", "N4", "1 << 2", "sizeof(uint32)", "0x04", "(N2 << 1)"]}


def _respell_counts(draw, t):
    """Fixed counts written as constant expressions (#define names, arithmetic, sizeof): still fixed-size arrays."""
    if t["k"] == "a":
        if t["len"][0] == "fixed" and t["len"][1] in COUNT_SPELLINGS and draw(st.booleans()):
            t["len"] = ["fixed", t["len"][1], draw(st.sampled_from(COUNT_SPELLINGS[t["len"][1]]))]
        _respell_counts(draw, t["t"])
    elif t["k"] == "p":
        _respell_counts(draw, t["t"])
    elif t["k"] == "st":
        for f in t["fields"]:
            _respell_counts(draw, f["t"])


@st.composite
def fixed_case(draw):
    bits = draw(st.integers(0, 3)) == 0
    o = gens.opts(dynamic=False, bits=bits, void=False, max_depth=3, max_fields=5, hazard=draw(st.booleans()), bits_char=True, bits_odd=True, wide_bits=True)
    d = draw(gens.definition(o, root_kind=draw(st.sampled_from(["struct", "struct", "struct", "union"])) if not bits else "struct"))
    cfg = draw(gens.config())
    defs = d["defs"]
    if draw(st.booleans()):
        for dd in defs:
            if dd["k"] == "structdef":
                _respell_counts(draw, dd["t"])
        defs = [{"k": "define", "n": "N1", "v": 1}, {"k": "define", "n": "N2", "v": "(N1 + 1)"}, {"k": "define", "n": "N4", "v": "0x4"}] + defs
    return {"defs": defs, "root": "Root", "cfg": cfg}


TAGS = ["item", "node", "hdr", "entry"]


def _rename(defs, suffix):
    """Every top-level name gets a suffix (each load defines its own names; nested tags are NOT renamed)."""
    import copy

    defs = copy.deepcopy(defs)
    mp = {d["n"]: d["n"] + suffix for d in defs}

    def walk(t):
        if t["k"] in ("ref", "e") and t["n"] in mp:
            t["n"] = mp[t["n"]]
        elif t["k"] in ("a", "p"):
            walk(t["t"])
        elif t["k"] == "st":
            for f in t["fields"]:
                walk(f["t"])

    for d in defs:
        d["n"] = mp[d["n"]]
        if d["k"] in ("structdef", "typedef"):
            walk(d["t"])
    return defs


def _tag_nested(draw, defs):
    """Give inline nested structures of named fields a tag from a small pool (unique within one load)."""
    free = list(TAGS)

    def walk(t):
        if t["k"] in ("a", "p"):
            walk(t["t"])
        elif t["k"] == "st":
            for f in t["fields"]:
                ft = f["t"]
                while ft["k"] == "a":
                    ft = ft["t"]
                if ft["k"] == "st" and f.get("name") and ft.get("name") is None and free and draw(st.booleans()):
                    ft["name"] = free.pop(draw(st.integers(0, len(free) - 1)))
                walk(f["t"])

    for d in defs:
        if d["k"] == "structdef":
            walk(d["t"])


@st.composite
def reuse_case(draw):
    """One cstruct object, several load() calls: each defines its own top-level names, but nested structure tags, the
    element types' display names ('item[2]', 'uint8*[2]') and the pointer width recur / change between loads."""
    loads = []
    for k in range(draw(st.integers(2, 3))):
        o = gens.opts(dynamic=False, bits=False, void=False, max_depth=2, max_fields=4, hazard=False, struct_weight=5, array_weight=True)
        d = draw(gens.definition(o, root_kind="struct"))
        defs = _rename(d["defs"], f"_{k}")
        _tag_nested(draw, defs)
        loads.append({"defs": defs, "cfg": draw(gens.config())})
    return {"reuse": True, "loads": loads}


def _run_reuse(case, ctx):
    from pbt.drive import import_repo

    m = import_repo()
    loads = case["loads"]
    cs = m.cstruct(endian=loads[0]["cfg"]["endian"], pointer=loads[0]["cfg"]["ptr"])
    tags = []
    for k, ld in enumerate(loads):
        r = lib(setattr, cs, "pointer", cs.resolve(ld["cfg"]["ptr"]))
        text = libside.render(ld["defs"])
        r = lib(cs.load, text, compiled=ld["cfg"]["compiled"], align=ld["cfg"]["align"])
        if isinstance(r, Err):
            raise Violation("definition-rejected", f"load #{k} on a cstruct object that already holds {k} definitions raised {r}:\n{text}", r.where)
        # the new definition, and every earlier one again (a later load must not disturb it)
        for j in range(k, -1, -1):
            if loads[j]["cfg"]["ptr"] != ld["cfg"]["ptr"]:
                continue  # existing pointer types read through the currently configured pointer type: not re-examined after a width change
            sub = {"defs": loads[j]["defs"], "cfg": dict(loads[j]["cfg"], endian=loads[0]["cfg"]["endian"]), "root": f"Root_{j}"}
            try:
                _check_layout(sub, ctx, cs, f"Root_{j}", f"SizeProbe_{j}_{k}", stats=False)
            except Violation as v:
                raise Violation(v.kind, f"load #{j} checked after load #{k} of {len(loads)} on one cstruct object (pointer widths {[l['cfg']['ptr'] for l in loads]}): {v.detail}\nall loads:\n" + "\n---\n".join(libside.render(l["defs"]) for l in loads), v.where, v.info) from None
        tags.append(set(_tags_of(ld["defs"])))
    shared = any(tags[i] & tags[j] for i in range(len(tags)) for j in range(i))
    widths = len({l["cfg"]["ptr"] for l in loads}) > 1
    ctx.count("reuse:loads", len(loads))
    if shared:
        ctx.count("reuse:nested-tag-recurs-across-loads")
    if widths:
        ctx.count("reuse:pointer-width-changes-between-loads")
    if shared or widths:
        ctx.mark_nontrivial(case)
        ctx.sample({"loads": [libside.render(l["defs"]) for l in loads], "pointer_widths": [l["cfg"]["ptr"] for l in loads]}, "reuse")


def _tags_of(defs):
    out = []

    def walk(t):
        if t["k"] in ("a", "p"):
            walk(t["t"])
        elif t["k"] == "st":
            if t.get("name"):
                out.append(t["name"])
            for f in t["fields"]:
                walk(f["t"])

    for d in defs:
        if d["k"] == "structdef":
            walk(d["t"])
    return out


def alias_cases():
    from props.c05 import ALIASES

    for name, (kind, size, info) in sorted(ALIASES.items()):
        if kind in ("leb", "void"):
            continue
        for align in (False, True):
            yield {"alias": name, "kind": kind, "size": size, "align": align, "compiled": len(name) % 2 == 0}


def _run_alias(case, ctx):
    """Every name of the built-in typedef table (multi-word spellings included) as a member, an array element and under
    sizeof: width from the name, natural alignment (24-bit -> 4, 48-bit -> 8, 128-bit -> 16)."""
    from pbt.drive import import_repo

    m = import_repo()
    name, size, align = case["alias"], case["size"], case["align"]
    cs = m.cstruct()
    if name not in cs.typedefs:
        ctx.count("alias:name-not-in-library")
        return
    al = {3: 4, 6: 8}.get(size, size) if align else 1
    text = f"struct Root {{ uint8 c; {name} x; {name} y[2]; uint8 z; char probe[sizeof({name})]; }};"
    r = lib(cs.load, text, compiled=case["compiled"], align=align)
    if isinstance(r, Err):
        raise Violation("definition-rejected", f"{text} align={align}: {r}", r.where)
    T = cs.Root
    ox = -(-1 // al) * al
    oy = ox + size + (-(ox + size) % al)
    oz = oy + 2 * size
    op = oz + 1
    total = op + size
    total += -total % al
    want = {"x": ox, "y": oy, "z": oz, "probe": op, "size": total, "len(probe)": size}
    got = {"x": T.fields["x"].offset, "y": T.fields["y"].offset, "z": T.fields["z"].offset, "probe": T.fields["probe"].offset, "size": lib(len, T), "len(probe)": lib(len, T.fields["probe"].type)}
    if got != want:
        raise Violation("layout-differs", f"{text} align={align}: {got}, a {size}-byte type aligned to {al} gives {want}")
    data = bytes(range(1, total + 9))
    s_ = io.BytesIO(data)
    obj = lib(T, s_)
    if isinstance(obj, Err) or s_.tell() != total or lib(lambda: len(obj.dumps())) != total:
        raise Violation("size-disagreement:number", f"{text} align={align}: parse {obj!r} consumed {s_.tell()}, dumps {lib(lambda: len(obj.dumps()))!r}, declared {total}")
    ctx.count(f"alias:{case['kind']}:{size}")
    ctx.mark_nontrivial([name, align])
    if align:
        ctx.sample({"alias": name, "size": size, "offsets": want}, "alias")


@st.composite
def sizeof_history_case(draw):
    kinds = ["uint8", "uint16", "uint32", "uint64", "uint24", "char[3]", "uint16[2]"]
    return {"sizeof_history": True, "first": [draw(st.sampled_from(kinds)) for _ in range(draw(st.integers(1, 3)))], "added": [draw(st.sampled_from(kinds)) for _ in range(draw(st.integers(1, 2)))],
            "align": draw(st.booleans()), "compiled": draw(st.booleans()), "n": draw(st.integers(1, 3)), "form": draw(st.sampled_from(["sizeof(Hdr) * n", "n * sizeof(Hdr)", "sizeof(Hdr) + n", "n + sizeof(Hdr) - 1"])),  # data-dependent counts only: a constant count is fixed at declaration
            "how": draw(st.sampled_from(["add_field", "replace"]))}


def _run_sizeof_history(case, ctx):
    """sizeof(T) inside an expression agrees with len(T) every time the expression is evaluated, also after T grew."""
    from pbt.drive import import_repo

    m = import_repo()
    cs = m.cstruct()
    body = " ".join(f"{k.split('[')[0]} h{i}{'[' + k.split('[')[1] if '[' in k else ''};" for i, k in enumerate(case["first"]))
    r = lib(cs.load, f"struct Hdr {{ {body} }};\nstruct Use {{ uint8 n; uint8 raw[{case['form']}]; uint8 t; }};", compiled=case["compiled"], align=case["align"])
    if isinstance(r, Err):
        raise Violation("definition-rejected", f"{r}", r.where)

    def expect(n):
        size = len(cs.Hdr)
        return {"sizeof(Hdr) * n": size * n, "n * sizeof(Hdr)": n * size, "sizeof(Hdr) + n": size + n, "n + sizeof(Hdr) - 1": n + size - 1}[case["form"]]

    def probe(label):
        for n in (case["n"], case["n"] + 1):
            want = expect(n)
            data = bytes([n]) + bytes(range(1, want + 1)) + b"\xee" + bytes(8)
            o = lib(cs.Use, data)
            if isinstance(o, Err) or len(o.raw) != want or o.t != 0xEE:
                raise Violation("size-disagreement:number", f"{label}: Use with n={n}: raw has {o if isinstance(o, Err) else len(o.raw)!r} elements (t={getattr(o, 't', None)!r}); raw[{case['form']}] with len(Hdr)={len(cs.Hdr)} gives {want}; Hdr = {case['first']} then {case['added']} ({case['how']}), compiled={case['compiled']}, align={case['align']}")

    probe("before Hdr changes")
    before = len(cs.Hdr)
    if case["how"] == "add_field":
        for i, k in enumerate(case["added"]):
            t = getattr(cs, k.split("[")[0])
            if "[" in k:
                t = t[int(k.split("[")[1][:-1])]
            cs.Hdr.add_field(f"x{i}", t)
    else:
        body2 = body + " " + " ".join(f"{k.split('[')[0]} x{i}{'[' + k.split('[')[1] if '[' in k else ''};" for i, k in enumerate(case["added"]))
        cs2 = m.cstruct()
        cs2.load(f"struct Hdr {{ {body2} }};", align=case["align"])
        cs.add_type("Hdr", cs._make_struct("Hdr", [m.Field(f.name, getattr(cs, f.type.__name__.split('[')[0]) if "[" not in f.type.__name__ else getattr(cs, f.type.__name__.split('[')[0])[f.type.num_entries], bits=f.bits) for f in cs2.Hdr.__fields__], align=case["align"]), replace=True)
    if len(cs.Hdr) <= before:
        return
    probe("after Hdr grew")
    ctx.count("sizeof-history:" + case["how"])
    ctx.mark_nontrivial(case)
    ctx.sample({k: case[k] for k in ("first", "added", "form", "how")}, "sizeof-history")


def selfcheck():
    """ctypes agrees with the reference layout on a fixed family (validity of the reference; exit 2 otherwise)."""
    for align in (False, True):
        for combo in itertools.product(range(len(KINDS)), repeat=2):
            fields = [{"name": f"f{j}", "t": KINDS[ki], "bits": None} for j, ki in enumerate(combo)]
            st_ = {"k": "st", "kind": "struct", "name": None, "fields": fields}
            sem = refsem.Sem([], {"endian": "<", "align": align, "ptr": "uint64"})
            ct = ctypes_of(sem, st_, not align, [0])
            lay = sem.layout(st_)
            if ctypes.sizeof(ct) != lay["size"] or [getattr(ct, n).offset for n, _ in ct._fields_] != lay["offs"]:
                raise HarnessError(f"reference layout disagrees with ctypes on {combo} align={align}")


def stages(tier):
    q = tier == "quick"
    return [
        EnumStage("sequences", seq_cases(3 if q else 4), shards=6 if q else 16, scope=f"all sequences of <= {3 if q else 4} fields over 12 base kinds x {{packed, aligned}}"),
        HypStage("nested", fixed_case, examples=500 if q else 10000, shards=8 if q else 16),
        HypStage("reuse", reuse_case, examples=300 if q else 6000, shards=4 if q else 8),
        HypStage("dynamic-layout", dynlayout_case, examples=400 if q else 6000, shards=4 if q else 8),
        HypStage("sizeof-history", sizeof_history_case, examples=150 if q else 1500, shards=2),
        EnumStage("aliases", alias_cases, shards=2, scope="every fixed-width name of the built-in typedef table x {packed, aligned}: member, array element, sizeof"),
    ]
