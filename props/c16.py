"""C16 — pointers: width from configuration, dereference reads the target in place."""
from __future__ import annotations

import io

from hypothesis import strategies as st

from pbt import gens, libside, refsem
from pbt.drive import EnumStage, Err, HarnessError, HypStage, Violation, import_repo, lib
from pbt.refsem import SCALARS, S, Sem

ID = "C16"
RULE = (
    "cases: pointer type in {uint8, uint16, uint32, uint64} x endian x {compiled, interpreted} x a generated HEAP IMAGE: a "
    "header structure of 2-5 pointer fields (incl. pointer arrays, pointer-to-pointer) with other fields in between, "
    "followed by the targets (scalars, char strings, structures, enums, void, pointers) placed at generated absolute "
    "addresses that fit the width; some pointers null, some past the end of the image. Oracle: the header consumes "
    "exactly the configured widths (offsets of the interleaved fields and tell()); int(p) == unsigned from_bytes; "
    "p.dereference() == reference decode of the target type at that absolute offset (char* => bytes up to NUL), leaves "
    "tell() unchanged and is stable on repetition; null / stream-less pointers raise NullPointerDereference; p + n and "
    "p - n are pointers of the same type on the same stream with the arithmetic value (and dereference accordingly); "
    "past-the-end targets raise EOFError; dumps() reproduces the address bytes. Shapes stage: the header behind a consumed "
    "prefix, pointers inside nested structures, struct arrays, typedefs, flags, chained nodes, far addresses, arrays that "
    "run to the end of the stream (of pointers, and of structures holding one), targets sized by a sibling member. Non-trivial = non-null address, "
    "multi-byte target, fields after the pointer; distinct by (configuration, image)."
)
ASSUMPTIONS = [
    "pointer widths 8..64 bit as the property states (24/48-bit pointer types are outside the claimed domain)",
    "a char pointer denotes a NUL-terminated string, as documented in the code",
]

TARGETS = ["uint8", "uint16", "int32", "uint64", "uint24", "char", "struct", "enum", "void", "ptr", "double"]
SDEF = {"k": "st", "kind": "struct", "name": None, "fields": [{"name": "a", "t": S("uint16"), "bits": None}, {"name": "b", "t": S("uint8"), "bits": None}, {"name": "c", "t": {"k": "a", "t": S("uint8"), "len": ["fixed", 2]}, "bits": None}]}
EDEF = {"k": "enumdef", "n": "E", "kind": "enum", "base": "uint16", "members": [["A", 1], ["B", 2]]}


def target_node(kind):
    if kind == "struct":
        return {"k": "ref", "n": "Tgt"}
    if kind == "enum":
        return {"k": "e", "n": "E"}
    if kind == "ptr":
        return {"k": "p", "t": S("uint16")}
    return S(kind)


@st.composite
def heap_case(draw):
    ptr = draw(st.sampled_from(["uint8", "uint16", "uint32", "uint64"]))
    psize = SCALARS[ptr][1]
    endian = draw(st.sampled_from("<>"))
    n = draw(st.integers(2, 5))
    fields = []
    plan = []  # per pointer slot: (field name, index in array or None, kind, mode)
    for i in range(n):
        kind = draw(st.sampled_from(TARGETS))
        if draw(st.integers(0, 4)) == 0:
            cnt = draw(st.integers(1, 2))
            fields.append({"name": f"pa{i}", "t": {"k": "a", "t": {"k": "p", "t": target_node(kind)}, "len": ["fixed", cnt]}, "bits": None})
            for j in range(cnt):
                plan.append([f"pa{i}", j, kind, draw(st.sampled_from(["ok", "ok", "ok", "null", "past"]))])
        else:
            fields.append({"name": f"p{i}", "t": {"k": "p", "t": target_node(kind)}, "bits": None})
            plan.append([f"p{i}", None, kind, draw(st.sampled_from(["ok", "ok", "ok", "null", "past"]))])
        if draw(st.booleans()):
            fields.append({"name": f"x{i}", "t": S(draw(st.sampled_from(["uint8", "uint16", "uint32"]))), "bits": None})
    fields.append({"name": "tail", "t": S("uint8"), "bits": None})
    defs = [dict(EDEF), {"k": "structdef", "n": "Tgt", "t": SDEF}, {"k": "structdef", "n": "Root", "t": {"k": "st", "kind": "struct", "name": None, "fields": fields}}]
    cfg = {"endian": endian, "align": False, "ptr": ptr, "compiled": draw(st.booleans())}
    sem = Sem(defs, cfg)
    hsize = sem.size(gens.ROOT)
    limit = min((1 << (psize * 8)) - 1, 1 << 20)
    heap = bytearray(draw(st.binary(min_size=2, max_size=6)))
    addrs = []
    for name, j, kind, mode in plan:
        if mode == "null":
            addrs.append(0)
            continue
        node = target_node(kind)
        if kind == "char":
            body = bytes(draw(st.lists(st.integers(1, 255), max_size=6))) + b"\x00"
        elif kind == "void":
            body = b""
        else:
            v = gens.gen_value(draw, sem, node)
            body = bytes(sem.encode(node, v))
        heap += draw(st.binary(max_size=3))
        addr = hsize + len(heap)
        if mode == "past" or addr + len(body) > limit:
            addrs.append(None)  # resolved below
            continue
        heap += body
        addrs.append(addr)
    heap += draw(st.binary(max_size=3))
    total = hsize + len(heap)
    out = []
    for a in addrs:
        if a is None:
            past = total + draw(st.integers(0, 3))
            a = past if past <= limit else 0
        out.append(a)
    if total > limit + 1:
        # the image does not fit the pointer width: shrink to null pointers only
        out = [0 for _ in out]
    # header bytes
    header = {}
    k = 0
    hv = {}
    for f in fields:
        if f["name"] == "tail":
            hv["tail"] = 0x7E
        elif f["name"].startswith("x"):
            hv[f["name"]] = draw(st.integers(0, 255))
        elif f["t"]["k"] == "a":
            cnt = f["t"]["len"][1]
            hv[f["name"]] = out[k : k + cnt]
            k += cnt
        else:
            hv[f["name"]] = out[k]
            k += 1
    image = bytes(sem.encode(gens.ROOT, hv)) + bytes(heap)
    return {"defs": defs, "root": "Root", "cfg": cfg, "image": image.hex(), "plan": plan}


def run_case(case, ctx):
    m = import_repo()
    cfg = case["cfg"]
    sem = Sem(case["defs"], cfg)
    image = bytes.fromhex(case["image"])
    cs = lib(libside.load, case["defs"], cfg)
    if isinstance(cs, Err):
        raise Violation("definition-rejected", f"{libside.render(case['defs'])} ptr={cfg['ptr']}: {cs}", cs.where)
    T = cs.Root
    psize = SCALARS[cfg["ptr"]][1]
    want, hend = sem.decode(common_root(), image, 0)
    stream = io.BytesIO(image)
    obj = lib(T, stream)
    desc = lambda extra=None: dict({"definition": libside.render(case["defs"]), "cfg": cfg, "image": case["image"], "plan": case["plan"]}, **(extra or {}))  # noqa: E731
    if isinstance(obj, Err):
        raise Violation("header-parse-raised", f"{obj}: {desc()}", obj.where)
    if stream.tell() != hend or len(T) != hend:
        raise Violation("pointer-width", f"header consumed {stream.tell()} bytes, len(T)={len(T)}, configured widths give {hend}: {desc()}")
    if libside.cplain(obj) != refsem.canon(want):
        raise Violation("pointer-value", f"header parsed as {libside.cplain(obj)!r}, reference (unsigned addresses of width {psize}) {refsem.canon(want)!r}: {desc()}")
    d = lib(obj.dumps)
    if isinstance(d, Err) or d != image[:hend]:
        raise Violation("dumps-changes-address", f"dumps {d!r}, header bytes {image[:hend].hex()}: {desc()}")
    nontriv = False
    firsts = []
    for name, j, kind, mode in case["plan"]:
        p = getattr(obj, name)
        if j is not None:
            p = p[j]
        addr = int(p)
        what = {"pointer": name if j is None else f"{name}[{j}]", "target": kind, "address": addr, "mode": mode}
        if not isinstance(p, m.Pointer):
            raise Violation("not-a-pointer", f"{what}: value is {type(p).__name__}: {desc(what)}")
        node = target_node(kind)
        before = stream.tell()
        r = lib(p.dereference)
        if stream.tell() != before:
            raise Violation("dereference-moved-stream", f"{what}: tell() {before} -> {stream.tell()}: {desc(what)}")
        if addr == 0:
            if not (isinstance(r, Err) and r.type == "NullPointerDereference"):
                raise Violation("null-dereference", f"{what}: dereferencing a null pointer gave {r!r} instead of NullPointerDereference: {desc(what)}")
            ctx.count("deref:null")
            # arithmetic on a null pointer that was READ from data: the result is a pointer of the same type on the same
            # stream (a base-relative table stores offset 0 for its first entry)
            if kind not in ("void", "ptr"):
                for n_ in sorted({1, 2, len(image) // 2, max(1, len(image) - 9)}):
                    q = lib(lambda: p + n_)
                    if isinstance(q, Err) or type(q) is not type(p) or int(q) != n_:
                        raise Violation("pointer-arithmetic", f"{what}: null + {n_} = {q!r} (type {type(q).__name__}), expected a {type(p).__name__} holding {n_}: {desc(what)}")
                    try:
                        if kind == "char":
                            expq = image[n_ : image.index(b"\x00", n_)]
                        else:
                            expq = refsem.canon(sem.decode(node, image, n_)[0])
                    except (refsem.Short, refsem.NonCanonical, ValueError):
                        continue
                    rq = lib(q.dereference)
                    if isinstance(rq, Err) or libside.cplain(rq) != expq:
                        raise Violation("pointer-arithmetic", f"{what}: (null pointer read from the data + {n_}).dereference() = {rq!r}, the bytes at {n_} decode to {expq!r}: {desc(what)}")
                    ctx.count("deref:null-plus-offset")
        elif kind == "void":
            if isinstance(r, Err):
                raise Violation("dereference-raised", f"{what}: {r}: {desc(what)}", r.where)
            ctx.count("deref:void")
        else:
            try:
                if kind == "char":
                    end = image.index(b"\x00", addr)
                    exp = image[addr:end]
                else:
                    exp, _ = sem.decode(node, image, addr)
                status = "ok"
            except (refsem.Short, ValueError):
                status = "short"
            except refsem.NonCanonical:
                status = "noncanonical"
            if status == "short":
                if not (isinstance(r, Err) and r.type == "EOFError"):
                    raise Violation("past-the-end", f"{what}: target lies beyond the image ({len(image)} bytes) but dereference gave {r!r} instead of EOFError: {desc(what)}")
                ctx.count("deref:past-the-end")
            elif status == "ok":
                if isinstance(r, Err):
                    raise Violation("dereference-raised", f"{what}: {r}, target decodes to {exp!r}: {desc(what)}", r.where)
                if libside.cplain(r) != refsem.canon(exp):
                    raise Violation("dereference-wrong-target", f"{what}: dereference gave {libside.cplain(r)!r}, the bytes at {addr} decode to {refsem.canon(exp)!r}: {desc(what)}")
                r2 = lib(p.dereference)
                if isinstance(r2, Err) or libside.cplain(r2) != libside.cplain(r):
                    raise Violation("dereference-unstable", f"{what}: second dereference gave {r2!r}: {desc(what)}")
                if r2 is not r:
                    # repeated access hands out the target that was read the first time (whatever its value: zero,
                    # empty string, all-zero structure), so a change made through one access is seen through the next
                    raise Violation("dereference-unstable", f"{what}: the second dereference returned another object ({r2!r}) than the first ({r!r}): {desc(what)}")
                if not r:
                    ctx.count("deref:falsy-target-accessed-twice")
                ctx.count(f"deref:ok:{kind}")
                firsts.append((what, p, libside.cplain(r)))
                # position independence: an uncached copy of the pointer dereferenced while the stream stands at the
                # pointer's own address, just behind the target, at 0 and at the end
                for pos in (addr, min(addr + 1, len(image)), 0, len(image)):
                    fresh = lib(lambda: p + 0)
                    if not isinstance(fresh, m.Pointer):
                        raise Violation("pointer-arithmetic", f"{what}: p + 0 is {fresh!r}, not a pointer: {desc(what)}")
                    stream.seek(pos)
                    rr = lib(fresh.dereference)
                    if isinstance(rr, Err) or libside.cplain(rr) != libside.cplain(r):
                        raise Violation("dereference-depends-on-position", f"{what}: with the stream at {pos} an uncached pointer dereferences to {rr!r}, expected {libside.cplain(r)!r}: {desc(what)}")
                    if stream.tell() != pos:
                        raise Violation("dereference-moved-stream", f"{what}: stream at {pos} before, at {stream.tell()} after dereferencing: {desc(what)}")
                stream.seek(before)
                if kind == "ptr":
                    inner = lib(r.dereference)
                    try:
                        exp2, _ = sem.decode(S("uint16"), image, int(exp))
                        if int(exp) != 0 and (isinstance(inner, Err) or libside.cplain(inner) != exp2):
                            raise Violation("dereference-wrong-target", f"{what}: pointer-to-pointer second level gave {inner!r}, expected {exp2}: {desc(what)}")
                    except refsem.Short:
                        pass
                    ctx.count("deref:pointer-to-pointer")
                if SCALARS.get(kind, (0, 2))[1] != 1:
                    nontriv = True
                # arithmetic: same type, same stream, value + n
                delta = 1 if kind in ("char", "uint8") else 0
                for n_ in (0, 1, 2):
                    q = lib(lambda: p + n_)
                    if isinstance(q, Err) or type(q) is not type(p) or int(q) != addr + n_ or q._stream is not p._stream:
                        raise Violation("pointer-arithmetic", f"{what}: p + {n_} = {q!r} (type {type(q).__name__}), expected a {type(p).__name__} at {addr + n_} on the same stream: {desc(what)}")
                    q2 = lib(lambda: q - n_)
                    if isinstance(q2, Err) or type(q2) is not type(p) or int(q2) != addr or q2._stream is not p._stream:
                        raise Violation("pointer-arithmetic", f"{what}: (p + {n_}) - {n_} = {q2!r}: not a {type(p).__name__} at {addr} on the same stream: {desc(what)}")
                    back = lib(q2.dereference)
                    if isinstance(back, Err) or libside.cplain(back) != libside.cplain(r):
                        raise Violation("pointer-arithmetic", f"{what}: ((p + {n_}) - {n_}).dereference() = {back!r}, p.dereference() = {libside.cplain(r)!r}: {desc(what)}")
                if kind == "char" and len(exp) >= 1:
                    q = p + 1
                    rq = lib(q.dereference)
                    if isinstance(rq, Err) or bytes(rq) != exp[1:]:
                        raise Violation("pointer-arithmetic", f"{what}: (p + 1).dereference() = {rq!r}, expected {exp[1:]!r}: {desc(what)}")
    # stability: after all other pointers were dereferenced, every pointer still yields its first result
    for what, p, first in firsts:
        again = lib(p.dereference)
        if isinstance(again, Err) or libside.cplain(again) != first:
            raise Violation("dereference-unstable", f"{what}: after dereferencing the other pointers, this one yields {again!r} instead of {first!r}: {desc(what)}")
    # a pointer without a stream
    P0 = type(getattr(obj, case["plan"][0][0]) if case["plan"][0][1] is None else getattr(obj, case["plan"][0][0])[0])
    orphan = lib(lambda: P0.__default__())
    if not isinstance(orphan, Err):
        r = lib(orphan.dereference)
        if not (isinstance(r, Err) and r.type == "NullPointerDereference"):
            raise Violation("null-dereference", f"default (stream-less) pointer dereference gave {r!r}: {desc()}")
        # ... and a non-null one without a stream (arithmetic on a default pointer; direct construction)
        a0 = 1 + (len(image) % 7)
        for how, mk in (("default + n", lambda: orphan + a0), ("P(addr, None)", lambda: P0(a0, None))):
            q = lib(mk)
            if isinstance(q, Err) or not isinstance(q, m.Pointer) or int(q) != a0:
                raise Violation("pointer-arithmetic", f"{how} with n = {a0} gave {q!r}: {desc()}")
            for access in ("dereference", "str"):
                r = lib(q.dereference) if access == "dereference" else lib(str, q)
                if not (isinstance(r, Err) and r.type == "NullPointerDereference"):
                    raise Violation("null-dereference", f"non-null pointer without a stream ({how}, address {a0}): {access} gave {r!r} instead of NullPointerDereference: {desc()}")
        ctx.count("deref:streamless-nonnull")
    ctx.count(f"ptr:{cfg['ptr']}:{cfg['endian']}:{'compiled' if getattr(T, '__compiled__', False) else 'interpreted'}")
    if any(f["t"]["k"] == "a" for f in sem.res(common_root())["fields"]):
        ctx.count("has:pointer-array")
    if nontriv:
        ctx.mark_nontrivial([cfg, case["image"], case["plan"]])
        ctx.sample(desc(), cfg["ptr"])


@st.composite
def reconf_case(draw):
    ws = ["uint8", "uint16", "uint32", "uint64"]
    w1 = draw(st.sampled_from(ws))
    w2 = draw(st.sampled_from([w for w in ws if w != w1]))
    return {"reconf": True, "w1": w1, "w2": w2, "target": draw(st.sampled_from(["uint8", "uint16", "char", "Tgt"])), "endian": draw(st.sampled_from("<>")),
            "compiled": draw(st.booleans()), "via": draw(st.sampled_from(["load", "load", "add_field"])), "addr": draw(st.integers(1, 3)), "fill": draw(st.binary(min_size=8, max_size=8)).hex()}


def _run_reconf(case, ctx):
    """The pointer width is configuration: structures defined after `cs.pointer` was changed use the new width, also
    for a target type that was already pointed to under the old width."""
    m = import_repo()
    w1, w2, tgt = case["w1"], case["w2"], case["target"]
    p2 = SCALARS[w2][1]
    cs = m.cstruct(endian=case["endian"], pointer=w1)
    r = lib(cs.load, f"struct Tgt {{ uint16 a; uint8 b; }};\nstruct First {{ {tgt} *p; {tgt} *pa[2]; uint8 x; }};", compiled=case["compiled"])
    if isinstance(r, Err):
        raise Violation("definition-rejected", f"{r}", r.where)
    first_size = len(cs.First)
    cs.pointer = cs.resolve(w2)
    if case["via"] == "load":
        r = lib(cs.load, f"struct Second {{ {tgt} *q; uint8 mid; {tgt} *qa[2]; uint8 y; }};", compiled=case["compiled"])
    else:
        def build():
            S = cs._make_struct("Second", [])
            if case["compiled"]:
                from dissect.cstruct import compiler

                S = compiler.compile(S)
            T = cs.resolve(tgt)
            S.add_field("q", cs._make_pointer(T))
            S.add_field("mid", cs.uint8)
            S.add_field("qa", cs._make_array(cs._make_pointer(T), 2))
            S.add_field("y", cs.uint8)
            cs.add_type("Second", S)

        r = lib(build)
    if isinstance(r, Err):
        raise Violation("definition-rejected", f"second definition after reconfiguring the pointer type: {r}", r.where)
    S = cs.Second
    what = f"pointer {w1} -> {w2}, target {tgt}, second struct via {case['via']}, compiled={case['compiled']}, endian {case['endian']}"
    want_size = 3 * p2 + 2
    if len(S) != want_size:
        raise Violation("pointer-width", f"{what}: len(Second) = {len(S)}, three pointers of the configured width {p2} and two bytes give {want_size}")
    bo = "little" if case["endian"] == "<" else "big"
    addr = want_size + case["addr"]
    image = addr.to_bytes(p2, bo) + b"\x5a" + (0).to_bytes(p2, bo) + (addr + 1).to_bytes(p2, bo) + b"\xa5" + bytes.fromhex(case["fill"]) + bytes(4)
    if addr + 4 > (1 << (8 * p2)) - 1:
        return
    s = io.BytesIO(image)
    obj = lib(S, s)
    if isinstance(obj, Err):
        raise Violation("header-parse-raised", f"{what}: {obj}", obj.where)
    if int(obj.q) != addr or obj.mid != 0x5A or int(obj.qa[0]) != 0 or int(obj.qa[1]) != addr + 1 or obj.y != 0xA5 or s.tell() != want_size:
        raise Violation("pointer-width", f"{what}: parsed q={int(obj.q)} mid={obj.mid:#x} qa={[int(x) for x in obj.qa]} y={obj.y:#x} tell={s.tell()}, expected q={addr} mid=0x5a qa=[0, {addr + 1}] y=0xa5 tell={want_size}")
    if lib(obj.dumps) != image[:want_size]:
        raise Violation("dumps-changes-address", f"{what}: dumps {lib(obj.dumps)!r} vs {image[:want_size].hex()}")
    if tgt == "uint8":
        d = lib(obj.q.dereference)
        if isinstance(d, Err) or int(d) != image[addr]:
            raise Violation("dereference-wrong-target", f"{what}: q.dereference() = {d!r}, byte at {addr} is {image[addr]}")
    ctx.count(f"reconf:{w1}->{w2}:{case['via']}")
    ctx.mark_nontrivial(case)
    ctx.sample({"what": what, "first_size": first_size, "second_size": want_size}, "reconf")


# ---------------------------------------------------------------- shapes: where the header stands, what the pointers sit in, what they point to

SHAPES_DEF = """
struct In {{ uint8 z; uint16 *q; }};
struct Node {{ uint8 v; Node *next; }};
typedef uint16 *PT;
flag Fl : uint8 {{ FA = 1, FB = 2 }};
struct Root {{ uint8 n; uint8 d[n]; uint8 b0 : 3; uint8 b1 : 5; uint16 *p; In in; In arr[2]; char *s; Node *node; PT tp; Fl *fl; uint8 tail; }};
"""


@st.composite
def shapes_case(draw):
    return {"shapes": True, "ptr": draw(st.sampled_from(["uint16", "uint32", "uint64"])), "endian": draw(st.sampled_from("<>")), "compiled": draw(st.booleans()),
            "pad": draw(st.integers(0, 9)), "n": draw(st.integers(0, 3)), "strlen": draw(st.sampled_from([0, 1, 5, 255, 256, 257, 1000])),
            "far": draw(st.sampled_from(["top-bit", "all-ones", "top-bit+5"])), "vals": draw(st.binary(min_size=16, max_size=16)).hex(),
            "op_k": draw(st.integers(-2, 300)), "gaps": draw(st.binary(min_size=6, max_size=6)).hex()}


def _run_shapes(case, ctx):
    m = import_repo()
    w = SCALARS[case["ptr"]][1]
    bo = "little" if case["endian"] == "<" else "big"
    cs = m.cstruct(endian=case["endian"], pointer=case["ptr"])
    r = lib(cs.load, SHAPES_DEF.format(), compiled=case["compiled"])
    if isinstance(r, Err):
        raise Violation("definition-rejected", f"{r}", r.where)
    T = cs.Root
    pad, n = case["pad"], case["n"]
    vals = bytes.fromhex(case["vals"])
    gaps = bytes.fromhex(case["gaps"])
    hsize = 1 + n + 1 + w + (1 + w) * 3 + w * 4 + 1
    far = {"top-bit": 1 << (8 * w - 1), "all-ones": (1 << (8 * w)) - 1, "top-bit+5": (1 << (8 * w - 1)) + 5}[case["far"]]
    # heap (absolute addresses = positions in the stream)
    heap = bytearray()
    base = pad + hsize

    def put(b, gap):
        nonlocal heap
        heap += bytes([0xCC]) * (gap % 4)
        a = base + len(heap)
        heap += b
        return a

    v1 = int.from_bytes(vals[0:2], bo) | 1
    v2 = int.from_bytes(vals[2:4], bo) | 2
    a1 = put(v1.to_bytes(2, bo), gaps[0])
    a2 = put(v2.to_bytes(2, bo), gaps[1])
    body = bytes(((vals[4] + i * 7) % 255) + 1 for i in range(case["strlen"]))
    a3 = put(body + b"\x00", gaps[2])
    a5 = put(bytes([vals[6] | 1]) + (0).to_bytes(w, bo), gaps[3])
    a4 = put(bytes([vals[5] | 1]) + a5.to_bytes(w, bo), gaps[4])
    a6 = put(bytes([vals[7] & 3]), gaps[5])
    if base + len(heap) >= (1 << (8 * w - 1)):
        return  # the image does not fit below the 'far' addresses of this width
    P = lambda a: a.to_bytes(w, bo)  # noqa: E731
    header = bytes([n]) + bytes(range(0x11, 0x11 + n)) + bytes([0xB5]) + P(a1) + bytes([0x21]) + P(a2) + bytes([0x22]) + P(a1) + bytes([0x23]) + P(far) + P(a3) + P(a4) + P(a2) + P(a6) + bytes([0x7E])
    assert len(header) == hsize
    image = bytes(range(0x60, 0x60 + pad)) + header + bytes(heap) + b"\xdd\xdd"
    what = {"ptr": case["ptr"], "endian": case["endian"], "compiled": case["compiled"], "pad": pad, "n": n, "strlen": case["strlen"], "far": hex(far)}
    stream = io.BytesIO(image)
    stream.seek(pad)
    obj = lib(T, stream)
    if isinstance(obj, Err):
        raise Violation("header-parse-raised", f"{what}: {obj}", obj.where)
    if stream.tell() != pad + hsize:
        raise Violation("pointer-width", f"{what}: header at {pad} consumed up to {stream.tell()}, expected {pad + hsize}")
    got = {"n": obj.n, "d": list(obj.d), "b": (int(obj.b0), int(obj.b1)), "p": int(obj.p), "in": (getattr(obj, "in").z, int(getattr(obj, "in").q)),
           "arr": [(e.z, int(e.q)) for e in obj.arr], "s": int(obj.s), "node": int(obj.node), "tp": int(obj.tp), "fl": int(obj.fl), "tail": obj.tail}
    b_lo, b_hi = (0xB5 & 7, 0xB5 >> 3) if bo == "little" else (0xB5 >> 5, 0xB5 & 31)
    want = {"n": n, "d": list(range(0x11, 0x11 + n)), "b": (b_lo, b_hi), "p": a1, "in": (0x21, a2), "arr": [(0x22, a1), (0x23, far)], "s": a3, "node": a4, "tp": a2, "fl": a6, "tail": 0x7E}
    if got != want:
        raise Violation("pointer-value", f"{what}: header parsed as {got}, stored (unsigned) values {want}")
    d = lib(obj.dumps)
    if isinstance(d, Err) or d != header:
        raise Violation("dumps-changes-address", f"{what}: dumps {d!r}, header bytes {header.hex()}")

    def deref(ptr_, label, expect):
        before = stream.tell()
        r_ = lib(ptr_.dereference)
        if stream.tell() != before:
            raise Violation("dereference-moved-stream", f"{what} {label}: tell() {before} -> {stream.tell()}")
        if isinstance(r_, Err):
            raise Violation("dereference-raised", f"{what} {label}: {r_}", r_.where)
        if libside.cplain(r_) != expect:
            raise Violation("dereference-wrong-target", f"{what} {label}: dereference gave {libside.cplain(r_)!r}, the bytes at {int(ptr_)} decode to {expect!r}")
        return r_

    inn = getattr(obj, "in")
    deref(obj.p, "p", v1)
    deref(inn.q, "in.q (pointer inside a nested structure)", v2)
    deref(obj.arr[0].q, "arr[0].q (pointer inside an array of structures)", v1)
    deref(obj.tp, "tp (typedef'd pointer)", v2)
    deref(obj.s, f"s (char*, {case['strlen']} characters)", body)
    deref(obj.fl, "fl (flag*)", vals[7] & 3)
    node = deref(obj.node, "node", {"v": vals[5] | 1, "next": a5})
    nxt = deref(node.next, "node.next (pointer found through a pointer)", {"v": vals[6] | 1, "next": 0})
    rnull = lib(nxt.next.dereference)
    if not (isinstance(rnull, Err) and rnull.type == "NullPointerDereference"):
        raise Violation("null-dereference", f"{what}: the null pointer ending the chain gave {rnull!r}")
    # a far address (top bit set) stays an unsigned number and does not dereference into the image
    rfar = lib(obj.arr[1].q.dereference)
    if not isinstance(rfar, Err):
        raise Violation("past-the-end", f"{what}: dereferencing {hex(far)} (far beyond the image) gave {rfar!r}")
    # ---- a second object of the same class over other bytes at the same addresses
    heap2 = bytearray(heap)
    for a_ in (a1, a2, a6):
        heap2[a_ - base] ^= 0x5A
    image2 = image[: pad + hsize] + bytes(heap2) + b"\xdd\xdd"
    s2 = io.BytesIO(image2)
    s2.seek(pad)
    obj2 = lib(T, s2)
    if isinstance(obj2, Err):
        raise Violation("header-parse-raised", f"{what} (second image): {obj2}", obj2.where)
    for label, pt, a_ in (("p", obj2.p, a1), ("in.q", getattr(obj2, "in").q, a2), ("tp", obj2.tp, a2)):
        r2 = lib(pt.dereference)
        exp2 = int.from_bytes(image2[a_ : a_ + 2], bo)
        if isinstance(r2, Err) or int(r2) != exp2:
            raise Violation("dereference-wrong-target", f"{what}: second object over other bytes, {label} at {a_}: dereference gave {r2!r}, its own stream holds {exp2} (first object's stream: {int.from_bytes(image[a_:a_ + 2], bo)})")
    again = lib(lambda: (obj.p + 0).dereference())
    if isinstance(again, Err) or int(again) != v1:
        raise Violation("dereference-unstable", f"{what}: after a second object was parsed from other bytes, a fresh copy of the first object's p dereferences to {again!r}, expected {v1}")
    # ---- arithmetic: every operator keeps type and stream
    k = case["op_k"]
    import operator as op_

    pp = obj.p
    for name, fn, operand in (("+", op_.add, k), ("-", op_.sub, k), ("*", op_.mul, 3), ("//", op_.floordiv, 2), ("%", op_.mod, 7), ("**", op_.pow, 1), ("<<", op_.lshift, 1), (">>", op_.rshift, 1), ("&", op_.and_, ~3), ("^", op_.xor, 5), ("|", op_.or_, 0)):
        q = lib(fn, pp, operand)
        if isinstance(q, Err) or type(q) is not type(pp) or int(q) != fn(int(pp), operand) or q._stream is not pp._stream:
            raise Violation("pointer-arithmetic", f"{what}: p {name} {operand} = {q!r} (type {type(q).__name__}); expected a {type(pp).__name__} holding {fn(int(pp), operand)} on the same stream")
    for name, mk in (("p | 0", lambda: pp | 0), ("p ** 1", lambda: pp ** 1), ("(p + k) - k", lambda: (pp + k) - k)):
        rq = lib(lambda: mk().dereference())
        if isinstance(rq, Err) or int(rq) != v1:
            raise Violation("pointer-arithmetic", f"{what}: ({name}).dereference() = {rq!r}, p.dereference() = {v1}")
    # ---- dumping: after reassignment, from plain numbers, through write(), of the pointer itself
    r_ = lib(lambda: setattr(obj, "p", obj.p + 1))
    if isinstance(r_, Err):
        raise Violation("pointer-arithmetic", f"{what}: obj.p = obj.p + 1 raised {r_}", r_.where)
    d2 = lib(obj.dumps)
    exp_h = header[: 1 + n + 1] + P(a1 + 1) + header[1 + n + 1 + w :]
    if isinstance(d2, Err) or d2 != exp_h:
        raise Violation("dumps-changes-address", f"{what}: after p = p + 1 dumps gives {d2!r}, expected {exp_h.hex()}")
    out = io.BytesIO()
    wr = lib(obj.write, out)
    if isinstance(wr, Err) or out.getvalue() != exp_h:
        raise Violation("dumps-changes-address", f"{what}: write() produced {out.getvalue().hex()} ({wr!r}), expected {exp_h.hex()}")
    pd = lib(obj.tp.dumps)
    if isinstance(pd, Err) or pd != P(a2):
        raise Violation("dumps-changes-address", f"{what}: tp.dumps() = {pd!r}, expected {P(a2).hex()}")
    # ---- a target whose own parse depends on the structure holding the pointer (an array typedef sized by a sibling
    # member): single pointers and elements of a pointer array carry the values of THAT structure, not of an outer one
    cs2 = m.cstruct(endian=case["endian"], pointer=case["ptr"])
    r2_ = lib(cs2.load, "typedef uint8 buf_t[n]; struct Ctx { uint8 n; buf_t *many[2]; buf_t *one; }; struct Outer { uint8 n; Ctx cx; uint8 t; };", compiled=case["compiled"])
    if isinstance(r2_, Err):
        raise Violation("definition-rejected", f"context-dependent target: {r2_}", r2_.where)
    inner_n = 1 + case["n"]
    hs2 = 1 + 1 + 3 * w + 1
    a_ = [hs2 + 2, hs2 + 2 + 8, hs2 + 2 + 16]
    img2 = bytes([inner_n + 4, inner_n]) + b"".join(P(x) for x in a_) + b"\x7e" + bytes(range(0x30, 0x30 + 40))
    st2 = io.BytesIO(img2)
    o2 = lib(cs2.Outer, st2)
    if isinstance(o2, Err):
        raise Violation("header-parse-raised", f"{what} (context-dependent target): {o2}", o2.where)
    for label, pt, ad in (("cx.many[0]", lambda: o2.cx.many[0], a_[0]), ("cx.many[1]", lambda: o2.cx.many[1], a_[1]), ("cx.one", lambda: o2.cx.one, a_[2])):
        rd = lib(lambda: list(pt().dereference()))
        if isinstance(rd, Err) or rd != list(img2[ad : ad + inner_n]):
            raise Violation("dereference-wrong-target", f"{what}: {label} points to 'uint8 buf_t[n]' with n = {inner_n} in the structure holding the pointer (the enclosing structure has n = {inner_n + 4}): dereference gave {rd!r}, the {inner_n} bytes at {ad} are {list(img2[ad:ad + inner_n])}")
    ctx.count("shapes:context-dependent-target")
    # ---- pointers that are elements of an array running to the end of the stream (directly, or inside the structures
    # that are its elements): the targets lie in front of the header, the addresses are positions in the stream given
    cs3 = m.cstruct(endian=case["endian"], pointer=case["ptr"])
    r3_ = lib(cs3.load, "struct In { uint8 z; uint16 *q; }; struct TailP { uint8 h; uint16 *ps[EOF]; }; struct TailS { uint8 h; In items[EOF]; };", compiled=case["compiled"])
    if isinstance(r3_, Err):
        raise Violation("definition-rejected", f"to-end-of-stream arrays: {r3_}", r3_.where)
    lead = 4 + 2 * (case["n"] + 1) + pad  # [0, lead): the targets (uint16 values at 2, 4, ...), then the header
    front = bytes([0xA0, 0xA1]) + b"".join((0x1001 + 0x101 * i).to_bytes(2, bo) for i in range(case["n"] + 2)) + bytes(range(0x60, 0x60 + pad))
    front = front[:lead].ljust(lead, b"\x5a")
    addrs = [2 + 2 * i for i in range(case["n"] + 1)]
    for tname, body3, getp in (("TailP", b"".join(P(a) for a in addrs), lambda o, i: o.ps[i]), ("TailS", b"".join(bytes([0x31 + i]) + P(a) for i, a in enumerate(addrs)), lambda o, i: o.items[i].q)):
        img3 = front + b"\x99" + body3
        st3 = io.BytesIO(img3)
        st3.seek(lead)
        o3 = lib(getattr(cs3, tname), st3)
        if isinstance(o3, Err):
            raise Violation("header-parse-raised", f"{what} ({tname}, header at {lead}): {o3}", o3.where)
        end3 = st3.tell()
        if end3 != len(img3):
            raise Violation("pointer-width", f"{what} ({tname}): an array to the end of a {len(img3)}-byte stream left it at {end3}")
        for i, a in enumerate(addrs):
            pt3 = lib(getp, o3, i)
            if isinstance(pt3, Err) or int(pt3) != a:
                raise Violation("pointer-value", f"{what} ({tname}): element {i} is {pt3!r}, stored address {a}")
            rd = lib(pt3.dereference)
            expect3 = int.from_bytes(img3[a : a + 2], bo)
            if isinstance(rd, Err):
                raise Violation("dereference-raised", f"{what} ({tname}, header at {lead}): element {i} -> {a}: {rd}", rd.where)
            if rd != expect3:
                raise Violation("dereference-wrong-target", f"{what} ({tname}, header at {lead}): element {i} points to {a}; dereference gave {rd!r}, the bytes at {a} of the stream decode to {expect3}")
            if st3.tell() != end3:
                raise Violation("dereference-moved-stream", f"{what} ({tname}): tell() {end3} -> {st3.tell()}")
    ctx.count("shapes:pointers-in-array-to-end-of-stream")
    ctx.count(f"shapes:{case['ptr']}:{case['endian']}:{'compiled' if case['compiled'] else 'interpreted'}")
    ctx.count(f"shapes:pad:{'zero' if pad == 0 else 'positive'}")
    ctx.count(f"shapes:strlen:{case['strlen']}")
    if pad > 0:
        ctx.mark_nontrivial(case)
        ctx.sample(what, "shapes")


# ---------------------------------------------------------------- pointers that are members of a union

UNION_FORMS = {
    "direct": ("union U {{ uint16 *p; {raw} raw; }};", lambda u: u.p),
    "in-struct": ("struct In {{ uint16 *q; }};\nunion U {{ In s; {raw} raw; }};", lambda u: u.s.q),
    "in-array": ("union U {{ uint16 *ps[1]; {raw} raw; }};", lambda u: u.ps[0]),
    "anonymous": ("union U {{ struct {{ uint16 *p; }}; {raw} raw; }};", lambda u: u.p),
}


def unionptr_cases():
    for ptr in ("uint16", "uint32", "uint64"):
        for endian in "<>":
            for compiled in (False, True):
                for form in UNION_FORMS:
                    for where in ("top", "member", "element"):
                        for pad in (0, 3):
                            yield {"unionptr": True, "ptr": ptr, "endian": endian, "compiled": compiled, "form": form, "where": where, "pad": pad}


def _run_unionptr(case, ctx):
    """A pointer read as (part of) a union member: width, value and dump as anywhere else, and dereferencing reads the
    target at that absolute offset of the stream the union was parsed from."""
    m = import_repo()
    w = SCALARS[case["ptr"]][1]
    bo = "little" if case["endian"] == "<" else "big"
    cs = m.cstruct(endian=case["endian"], pointer=case["ptr"])
    text, get = UNION_FORMS[case["form"]]
    text = text.format(raw=case["ptr"]) + "\nstruct Root { uint8 h; U u; uint8 t; };\nstruct Arr { uint8 h; U us[2]; uint8 t; };\n"
    r = lib(cs.load, text, compiled=case["compiled"])
    if isinstance(r, Err):
        raise Violation("definition-rejected", f"{text}: {r}", r.where)
    pad = case["pad"]
    where = case["where"]
    hdr = {"top": w, "member": 1 + w + 1, "element": 1 + 2 * w + 1}[where]
    addr = pad + hdr + 1
    P = addr.to_bytes(w, bo)
    head = {"top": P, "member": b"\x07" + P + b"\x09", "element": b"\x07" + P + P + b"\x09"}[where]
    image = bytes(range(0x60, 0x60 + pad)) + head + b"\xcc" + (0x1234).to_bytes(2, bo) + b"\xdd" + (0x5678).to_bytes(2, bo)
    T = {"top": cs.U, "member": cs.Root, "element": cs.Arr}[where]
    stream = io.BytesIO(image)
    stream.seek(pad)
    obj = lib(T, stream)
    what = {"definition": text, "ptr": case["ptr"], "endian": case["endian"], "compiled": case["compiled"], "parsed": where, "at": pad, "image": image.hex()}
    if isinstance(obj, Err):
        raise Violation("header-parse-raised", f"{what}: {obj}", obj.where)
    if stream.tell() != pad + hdr:
        raise Violation("pointer-width", f"{what}: consumed up to {stream.tell()}, expected {pad + hdr}")
    unions = [obj] if where == "top" else [obj.u] if where == "member" else list(obj.us)
    d = lib(obj.dumps)
    if isinstance(d, Err) or d != head:
        raise Violation("dumps-changes-address", f"{what}: dumps {d!r}, read {head.hex()}")
    for i, u in enumerate(unions):
        p = lib(get, u)
        if isinstance(p, Err) or int(p) != addr or int(u.raw) != addr:
            raise Violation("pointer-value", f"{what}: union #{i}: pointer {p!r}, raw {u.raw!r}, stored address {addr}")
        before = stream.tell()
        rd = lib(p.dereference)
        if stream.tell() != before:
            raise Violation("dereference-moved-stream", f"{what}: tell() {before} -> {stream.tell()}")
        if isinstance(rd, Err) or rd != 0x1234:
            raise Violation("pointer-in-union:dereference", f"{what}: union #{i}: the pointer holds {addr}; dereference gave {rd!r}, the bytes at {addr} of the stream decode to {0x1234:#x}", rd.where if isinstance(rd, Err) else None)
    # the union rebuilds its members after an assignment: the pointer is a new object, on the same stream
    u0 = unions[0]
    r = lib(setattr, u0, "raw", addr + 3)
    if isinstance(r, Err):
        raise Violation("pointer-arithmetic", f"{what}: raw = {addr + 3}: {r}", r.where)
    p2 = lib(get, u0)
    rd2 = p2 if isinstance(p2, Err) else lib(p2.dereference)
    if isinstance(rd2, Err) or int(p2) != addr + 3 or rd2 != 0x5678:
        raise Violation("pointer-in-union:dereference", f"{what}: after raw = {addr + 3} the pointer member is {p2!r} and dereferences to {rd2!r}; the bytes at {addr + 3} of the stream decode to {0x5678:#x}")
    # a union that was never read from a stream: its pointers have none
    U = cs.U
    fresh = lib(U)
    if not isinstance(fresh, Err):
        lib(setattr, fresh, "raw", addr)
        pf = lib(get, fresh)
        rf = pf if isinstance(pf, Err) else lib(pf.dereference)
        if not isinstance(rf, Err) or rf.type != "NullPointerDereference":
            raise Violation("null-dereference", f"{what}: U() with raw = {addr}: the pointer member has no stream, dereference gave {rf!r} instead of NullPointerDereference")
    ctx.count("pointer-in-union:" + case["form"])
    ctx.mark_nontrivial(case)
    ctx.sample(what, "union")


_run_heap = run_case


def run_case(case, ctx):  # noqa: F811 - dispatch on the case kind
    if case.get("reconf"):
        return _run_reconf(case, ctx)
    if case.get("shapes"):
        return _run_shapes(case, ctx)
    if case.get("unionptr"):
        return _run_unionptr(case, ctx)
    return _run_heap(case, ctx)


def common_root():
    return {"k": "ref", "n": "Root"}


def stages(tier):
    q = tier == "quick"
    return [
        HypStage("heap", heap_case, examples=1500 if q else 20000, shards=8 if q else 16),
        HypStage("reconfigure", reconf_case, examples=400 if q else 3000, shards=1 if q else 2),
        HypStage("shapes", shapes_case, examples=400 if q else 8000, shards=4 if q else 8),
        EnumStage("union-members", unionptr_cases, shards=2, scope="3 widths x 2 byte orders x 2 readers x 4 places of the pointer inside a union x union parsed on its own / as a member / as array elements x 2 start positions"),
    ]

