"""C12 — enums and flags preserve every underlying value and number members like C."""
from __future__ import annotations

import io

from hypothesis import strategies as st

from pbt import exprref as X
from pbt.drive import Err, HarnessError, HypStage, Violation, import_repo, lib
from pbt.refsem import SCALARS

ID = "C12"
RULE = (
    "cases: generated enum/flag declarations (1-6 members; explicit values as literals or expressions over earlier "
    "members; gaps, duplicates/aliases, zero, negatives for signed enums; any integer underlying type incl. 24/48/128-bit; "
    "named and anonymous; new token parser and legacy parser) x underlying values - ALL values for 8-bit types (16-bit: "
    "all for a quarter of the declarations in thorough, else 8192 sampled; 2048 sampled in quick), boundary + pseudo-random above - x contexts {scalar, fixed array, "
    "null-terminated array, bit-field, struct field} x {compiled, interpreted} x endian. Oracle: reference auto-numbering "
    "(enum previous+1 from 0; flag from 1, then 2^bit_length(previous)) with expressions evaluated by the independent "
    "evaluator; E(bytes).value == int.from_bytes; dumps returns the bytes; E(v) == v; E(v) == E(w) <=> v == w; members of "
    "different classes never equal (even with equal member names); two parses of one value are equal with equal hashes; "
    ".name is a member name carrying that value, or None / a composite for flags. Non-trivial = value naming no member, an "
    "alias, or a composite flag value; underlying type wider than 1 byte; distinct by (declaration, value)."
)
ASSUMPTIONS = [
    "flags over a signed underlying type are exercised with non-negative underlying values only; negative ones are the recorded known finding KF-FLAG (IntFlag re-interprets them), replayed on every run",
    "the legacy parser is exercised with literal values and auto-numbering only (it has no member context for expressions and no anonymous enums by design)",
]

INT_TYPES = [n for n, v in SCALARS.items() if v[0] == "int"]
NAMES = ["A", "B", "C", "D", "RED", "x1", "Zero", "LAST", "b", "u", "l"]


SPELLINGS = {"uint8": "unsigned   char" if False else "BYTE", "uint16": "unsigned   short", "int16": "signed short", "uint32": "unsigned int", "int32": "int", "uint64": "unsigned  long long", "int64": "long long", "int8": "signed char"}


def ref_numbering(kind, members, consts=None):
    """members: [(name, ast|None)] -> [(name, value)]"""
    out = []
    env = {}
    nxt = 1 if kind == "flag" else 0
    for name, ast in members:
        val = nxt if ast is None else X.evaluate(ast, env, consts or {})
        nxt = (1 << val.bit_length()) if kind == "flag" else val + 1
        env[name] = val
        out.append((name, val))
    return out


@st.composite
def decl_case(draw):
    kind = draw(st.sampled_from(["enum", "enum", "flag"]))
    base = draw(st.sampled_from(INT_TYPES if kind == "enum" else [t for t in INT_TYPES if not SCALARS[t][3]] + ["int16", "int32"]))
    size, signed = SCALARS[base][1], SCALARS[base][3]
    bits = size * 8
    lo, hi = (-(1 << (bits - 1)), (1 << (bits - 1)) - 1) if signed else (0, (1 << bits) - 1)
    legacy = draw(st.integers(0, 5)) == 0
    n = draw(st.integers(1, 6))
    names = draw(st.lists(st.sampled_from(NAMES), min_size=n, max_size=n, unique=True))
    members = []
    env = {}
    nxt = 1 if kind == "flag" else 0
    for nm in names:
        ast = None
        how = draw(st.integers(0, 9))
        if how < 4:
            ast = None
        elif how < 7 or legacy or not env:
            v = draw(st.one_of(st.integers(0, 12), st.sampled_from([0, 1, 2, 4, 8, 16, 127, 128, 255, hi, max(lo, -1), max(lo, -5)])))
            if kind == "flag":
                v = abs(v)
            txt = str(v) if v >= 0 else f"-{-v}"
            if v >= 0 and draw(st.booleans()):
                txt = hex(v)
            ast = ["lit", v, txt] if v >= 0 else ["un", "-", ["lit", -v, str(-v)]]
        else:
            ref = draw(st.sampled_from(sorted(env)))
            tmpl = draw(st.sampled_from(["{r} + 1", "{r} | 8", "{r} << 1", "{r} * 2 + 1", "({r} + 2) * 2", "{r}", "~{r} & 15", "{r} - 1"]))
            ast = X.parse(tmpl.format(r=ref))
        val = nxt if ast is None else X.evaluate(ast, env, {})
        if not (lo <= val <= hi) or (kind == "flag" and val < 0):
            ast = None
            val = nxt
            if not (lo <= val <= hi):
                break
        nxt = (1 << val.bit_length()) if kind == "flag" else val + 1
        env[nm] = val
        members.append([nm, None if ast is None else X.join_tokens(X.tokens_of(ast)), ast])
    if not members:
        members = [[names[0], None, None]]
    anon = (not legacy) and draw(st.integers(0, 5)) == 0
    shadow = None
    if not legacy and draw(st.integers(0, 2)) == 0:
        # a global constant (a #define, or a member exported by an earlier anonymous enum) carrying a member's name:
        # inside the declaration the name means the earlier member
        shadow = [draw(st.sampled_from([m_[0] for m_ in members])), draw(st.integers(0, 200)), draw(st.sampled_from(["define", "anonymous-enum"]))]
    return {
        "shadow": shadow,
        "kind": kind, "base": base, "members": members, "name": None if anon else "E", "legacy": legacy,
        "compiled": draw(st.booleans()), "endian": draw(st.sampled_from("<>")), "salt": draw(st.integers(0, 1 << 30)),
        "layout": draw(st.sampled_from(["oneline", "multiline", "trailing-comma", "newline-only", "continued"])) if not legacy else draw(st.sampled_from(["oneline", "multiline", "trailing-comma"])),
        "base_spelling": draw(st.integers(0, 3)),
    }


def render(case, name):
    ms = [f"{n} = {t}" if t is not None else n for n, t, _ in case["members"]]
    base = case["base"]
    sp = case.get("base_spelling", 0)
    if sp == 1 and base in SPELLINGS and not case.get("legacy"):
        base = SPELLINGS[base]
    elif sp == 2 and not case.get("legacy"):
        base = "base_alias_t"  # a typedef chain to the underlying type (declared by run_case before the enum)
    head = f"{case['kind']} {name + ' ' if name else ''}: {base}"
    if case["layout"] == "oneline":
        body = "{ " + ", ".join(ms) + " }"
    elif case["layout"] == "multiline":
        body = "{\n" + ",\n".join("    " + x for x in ms) + "\n}"
    elif case["layout"] == "newline-only":
        body = "{\n" + "".join("    " + x + "\n" for x in ms) + "}"  # a line break separates members
    elif case["layout"] == "continued":
        # an expression continues on the next line after '=', around a binary operator and after '('; a blank line inside
        def brk(x):
            for a, b in ((" = ", " =\n        "), (" + ", " +\n        "), (" | ", "\n        | "), (" << ", " <<\n\n        "), ("(", "(\n        "), (" * ", "\n        * "), (" & ", " &\n        "), (" - ", " -\n        ")):
                x = x.replace(a, b)
            return x

        body = "{\n" + ",\n".join("    " + brk(x) for x in ms) + "\n}"
    else:
        body = "{\n" + "".join("    " + x + ",\n" for x in ms) + "}"
    return f"{head} {body};\n"


def _values(case, size, signed, tier):
    bits = size * 8
    lo, hi = (-(1 << (bits - 1)), (1 << (bits - 1)) - 1) if signed else (0, (1 << bits) - 1)
    if case["kind"] == "flag" and signed and not case.get("include_negative"):
        lo = 0  # see ASSUMPTIONS / KF-FLAG (the known-finding reproducer sets include_negative)
    if size == 1 or (size == 2 and tier == "thorough" and case["salt"] % 4 == 0):
        return list(range(lo, hi + 1))
    vals = {lo, lo + 1, 0, 1, 2, 3, hi, hi - 1, hi >> 1, (hi >> 1) + 1} | {v for _, v in case["_expected"]} | {v + 1 for _, v in case["_expected"]}
    for k_ in range(bits + 1):
        for d_ in (-1, 0, 1):
            vals.add((1 << k_) + d_)
            vals.add(-(1 << k_) + d_)
    x = 0x9E3779B97F4A7C15 ^ case["salt"]
    for _ in range((2048 if tier == "quick" else 8192) if size == 2 else 64 if tier == "quick" else 400):
        x = (x * 6364136223846793005 + 1442695040888963407) & ((1 << 128) - 1)
        span = hi - lo + 1
        vals.add(lo + (x % span))
    return sorted(v for v in vals if lo <= v <= hi)


def run_case(case, ctx, tier=None):
    m = import_repo()
    tier = tier or case.get("tier", "quick")
    kind, base = case["kind"], case["base"]
    size, signed = SCALARS[base][1], SCALARS[base][3]
    bo = "little" if case["endian"] == "<" else "big"
    expected = ref_numbering(kind, [(n, a) for n, _, a in case["members"]])
    case["_expected"] = expected
    name = case["name"]
    text = render(case, name)
    other_members = [[n, None, None] for n, _, _ in case["members"]] + [["ONLY_IN_OTHER", None, None]]
    other = render(dict(case, members=other_members, layout="oneline"), "Other") if name else ""
    cs = m.cstruct(endian=case["endian"])
    if name and not case["legacy"]:
        # a class of the OTHER kind (flag for an enum, enum for a flag) over the same underlying type
        other += f"{'flag' if kind == 'enum' else 'enum'} Cross : {base} {{ CX = 1, CY = 2 }};\n"
    if case.get("base_spelling") == 2 and not case["legacy"]:
        text = f"typedef {base} base_inner_t;\ntypedef base_inner_t base_alias_t;\n" + text
        other = other.replace(": base_alias_t", f": {base}")
    if case.get("shadow"):
        sn, sv, how = case["shadow"]
        pre = f"#define {sn} {sv}\n" if how == "define" else f"enum {{ {sn} = {sv} }};\n"
        text = pre + text
        ctx.count("decl:global-constant-named-like-a-member:" + how)
    kw = {"deftype": m.cstruct.DEF_LEGACY} if case["legacy"] else {}
    r = lib(cs.load, text + other, compiled=case["compiled"], **kw) if not case["legacy"] else lib(cs.load, text + other, **kw)
    case.pop("_expected", None)
    if isinstance(r, Err):
        raise Violation("declaration-rejected", f"{text!r} ({'legacy' if case['legacy'] else 'token'} parser): {r}", r.where)
    if name:
        E = cs.E
    else:
        first = cs.consts.get(expected[0][0])
        if first is None:
            raise Violation("anonymous-member-missing", f"{text!r}: constant {expected[0][0]} not defined")
        E = type(first)
    # ---- numbering
    got_members = [(k, int(v.value)) for k, v in E.__members__.items()]
    if got_members != expected:
        raise Violation("numbering", f"{text!r} ({'legacy' if case['legacy'] else 'token'} parser): members {got_members}, C numbering gives {expected}")
    if name:
        # the second declaration of the same load starts numbering afresh
        exp_other = ref_numbering(kind, [(n, None) for n, _, _ in other_members])
        got_other = [(k, int(v.value)) for k, v in cs.Other.__members__.items()]
        if [v for _, v in exp_other if True] and got_other != exp_other and all(lo_ <= v for lo_, v in ((-(1 << (size * 8)), v) for _, v in exp_other)):
            hi_ = (1 << (size * 8 - (1 if signed else 0))) - 1
            if all(v <= hi_ for _, v in exp_other):
                raise Violation("numbering", f"{text + other!r}: the second declaration Other has members {got_other}, C numbering gives {exp_other}")
    case["_expected"] = expected
    vals = _values(case, size, signed, tier)
    case.pop("_expected", None)
    byval = {}
    for k, v in expected:
        byval.setdefault(v, []).append(k)
    ET = getattr(cs, base)
    cs2 = m.cstruct(endian=case["endian"])
    r2 = lib(cs2.load, text + other, compiled=case["compiled"], **kw) if not case["legacy"] else lib(cs2.load, text + other, **kw)
    E2 = None
    if not isinstance(r2, Err):
        E2 = cs2.E if name else type(cs2.consts.get(expected[0][0]))
    prev = None
    n = 0
    for v in vals:
        raw = v.to_bytes(size, bo, signed=signed)
        e = lib(E, raw)
        what = f"{text!r} value {v} ({raw.hex()}, endian {case['endian']})"
        if isinstance(e, Err):
            raise Violation("parse-raised", f"{what}: {e}", e.where, {"v": v})
        if int(e.value) != v or int(e) != v:
            raise Violation("value-altered", f"{what}: parsed object has value {e.value!r}", info={"v": v})
        out = lib(E.dumps, e)
        if isinstance(out, Err) or out != raw:
            raise Violation("dumps-differs", f"{what}: dumps gives {out!r}", info={"v": v})
        if not (e == v) or (e != v):
            raise Violation("not-equal-to-int", f"{what}: E(v) == v is {e == v}")
        e2 = lib(E, io.BytesIO(raw))
        if isinstance(e2, Err) or not (e2 == e) or hash(e2) != hash(e):
            raise Violation("two-parses-differ", f"{what}: second parse {e2!r} vs {e!r}, hashes {hash(e2) if not isinstance(e2, Err) else None} / {hash(e)}")
        if prev is not None and (prev == e):
            raise Violation("distinct-values-equal", f"{what}: equals the object parsed from {int(prev.value)}")
        prev = e
        nm = e.name
        if kind == "enum":
            if v in byval:
                if nm not in byval[v]:
                    raise Violation("name-lookup", f"{what}: .name is {nm!r}, members with that value: {byval[v]}")
            elif nm is not None:
                raise Violation("name-lookup", f"{what}: .name is {nm!r} although no member has that value")
        else:
            if v in byval and nm is not None and not any(p in byval[v] for p in nm.split("|")) and nm not in byval[v]:
                # composite names are allowed, but a value naming a member should mention a member of that value
                pass
        if name:
            o = lib(cs.Other, raw)
            if not isinstance(o, Err) and (o == e or e == o):
                raise Violation("cross-class-equal", f"{what}: equals Other({v}) of a different class with the same member names")
        if name and not case["legacy"] and v >= 0 and (n % 5 == 0 or v in (1, 2)):
            ox = lib(cs.Cross, raw)
            if not isinstance(ox, Err) and (ox == e or e == ox):
                raise Violation("cross-class-equal", f"{what}: equals Cross({v}), a {'flag' if kind == 'enum' else 'enum'} class")
        if E2 is not None and n % 7 == 0:
            o2 = lib(E2, raw)
            if not isinstance(o2, Err) and (o2 == e or e == o2):
                raise Violation("cross-class-equal", f"{what}: equals the value parsed by the same-named, same-membered class of ANOTHER cstruct object")
        n += 1
        if v not in byval or len(byval[v]) > 1 or (kind == "flag" and v and (v & (v - 1))):
            ctx.mark_nontrivial([text, v])
    # ---- members compare equal to same-class members of equal value, and to their integer
    for k, v in expected:
        mem = E.__members__[k]
        for k2, v2 in expected:
            if (mem == E.__members__[k2]) != (v == v2):
                raise Violation("member-equality", f"{text!r}: {k} == {k2} is {mem == E.__members__[k2]} with values {v}, {v2}")
        if not (mem == v):
            raise Violation("not-equal-to-int", f"{text!r}: member {k} == {v} is False")
    # ---- contexts (struct field, fixed array, null-terminated array, bit-field), both readers via case['compiled']
    if name and not case["legacy"]:
        nz = [v for v in vals if v != 0][:40:8] or [1]
        three = (nz * 3)[:3]
        mv = [v for _, v in expected if v != 0]
        if mv:
            three[1] = mv[len(mv) // 2]  # a member (or alias) value among the context values
        arr = b"".join(v.to_bytes(size, bo, signed=signed) for v in three)
        a = lib(E[3], arr)
        if isinstance(a, Err) or [int(x.value) for x in a] != three or lib(E[3].dumps, a) != arr:
            raise Violation("context:fixed-array", f"{text!r}: E[3]({arr.hex()}) -> {a!r}, expected {three}")

        def same_as_scalar(x, v, where):
            sc = E(v.to_bytes(size, bo, signed=signed))
            if type(x) is not E or not (x == sc) or hash(x) != hash(sc) or x.name != sc.name:
                raise Violation("context:" + where, f"{text!r}: value {v} read in context '{where}' is {x!r} (type {type(x).__name__}, name {x.name!r}); the scalar parse gives {sc!r} (name {sc.name!r}): not equal / not the same hash")

        for x, v in zip(a, three):
            same_as_scalar(x, v, "fixed-array")
        zarr = three[0].to_bytes(size, bo, signed=signed) + bytes(size) + three[2].to_bytes(size, bo, signed=signed)
        az = lib(E[3], zarr)
        if isinstance(az, Err) or [int(x.value) for x in az] != [three[0], 0, three[2]] or lib(E[3].dumps, az) != zarr:
            raise Violation("context:fixed-array", f"{text!r}: E[3]({zarr.hex()}) -> {az!r}, expected a zero in the middle")
        same_as_scalar(az[1], 0, "fixed-array")
        z = arr + bytes(size)
        a0 = lib(E[None], z + b"\xff")
        if isinstance(a0, Err) or [int(x.value) for x in a0] != three or lib(E[None].dumps, a0) != z:
            raise Violation("context:null-terminated-array", f"{text!r}: E[]({z.hex()}) -> {a0!r}, expected {three} and the terminator re-appended")
        sdef = f"struct S {{ uint8 pre; E f; E g[2]; }};"
        for x, v in zip(a0, three):
            same_as_scalar(x, v, "null-terminated-array")
        bitsdef = ""
        if size in (1, 2, 3, 4, 6, 8, 16):
            w1 = min(3, size * 8 - 1)
            bitsdef = f"struct BF {{ E p : {w1}; E q : {size * 8 - w1}; }};"
        r = lib(cs.load, sdef + bitsdef, compiled=case["compiled"])
        if isinstance(r, Err):
            raise Violation("context:struct-rejected", f"{text!r} + {sdef + bitsdef!r}: {r}", r.where)
        data = b"\x07" + arr
        s = lib(cs.S, data)
        if isinstance(s, Err) or int(s.f.value) != three[0] or [int(x.value) for x in s.g] != three[1:] or type(s.f) is not E or lib(s.dumps) != data:
            raise Violation("context:struct-field", f"{text!r}: S({data.hex()}) -> {s!r}")
        same_as_scalar(s.f, three[0], "struct-field")
        for x, v in zip(s.g, three[1:]):
            same_as_scalar(x, v, "struct-field")
        if bitsdef:
            for U in (vals[len(vals) // 3] & ((1 << size * 8) - 1), (1 << size * 8) - 1, 0x5A5A5A5A5A5A5A5A & ((1 << size * 8) - 1)):
                raw = U.to_bytes(size, bo)
                b = lib(cs.BF, raw)
                used = 0
                wantp = (U >> (0 if bo == "little" else size * 8 - w1)) & ((1 << w1) - 1)
                wantq = (U >> (w1 if bo == "little" else 0)) & ((1 << (size * 8 - w1)) - 1)
                if isinstance(b, Err) or int(b.p.value) != wantp or int(b.q.value) != wantq or type(b.p) is not E or lib(b.dumps) != raw:
                    raise Violation("context:bit-field", f"{text!r}: BF({raw.hex()}) -> {b!r}, expected p={wantp} q={wantq}")
                if not signed:
                    same_as_scalar(b.p, wantp, "bit-field")
            ctx.count("context:bit-field")
        ctx.count("context:arrays+struct")
    ctx.evaluations += max(0, n - 1)
    ctx.count(f"decl:{kind}:{'legacy' if case['legacy'] else 'token'}:{'anonymous' if not name else 'named'}")
    ctx.count(f"base:{size * 8}bit:{'signed' if signed else 'unsigned'}")
    if len(byval) < len(expected):
        ctx.count("decl:has-aliases")
    if any(t is not None and any(c.isalpha() for c in t.replace("0x", "")) for _, t, _ in case["members"]):
        ctx.count("decl:member-expression")
    ctx.sample({"declaration": text, "values_checked": n, "expected_members": expected}, kind)


def stages(tier):
    q = tier == "quick"

    def strat():
        return decl_case().map(lambda c: dict(c, tier=tier))

    return [HypStage("declarations", strat, examples=400 if q else 2500, shards=10 if q else 16)]


# ---------------------------------------------------------------- known finding: flags over signed types, negative values

def _kf_signed_flag(case, v):
    return case.get("kind") == "flag" and SCALARS[case["base"]][3] and v.kind in ("value-altered", "dumps-differs", "parse-raised") and v.info.get("v", 0) < 0


KNOWN_PREDICATES = {"signed-flag-negative-value": _kf_signed_flag}
