"""C02 — byte fidelity: parse-then-dump reproduces every data-carrying input byte; padding written as zero."""
from __future__ import annotations

import io

from hypothesis import strategies as st

from pbt import common, gens, libside, refsem
from pbt.drive import EnumStage, Err, HypStage, Violation, lib

ID = "C02"
RULE = (
    "cases: generated definition (scalars, enums/flags, fixed/expression/null-terminated/EOF arrays, nested and anonymous "
    "structs/unions, bit-fields, pointers) x endian x packed/aligned x compiled/interpreted x a canonical input built "
    "constructively (value tree drawn from the model, encoded by the independent reference, every padding byte and "
    "unassigned bit-field bit filled with non-zero garbage, garbage tail) or raw bytes the reference classifies as "
    "accepted+canonical. Oracle: consumed == tell == len(dumps); (dumps XOR input) AND mask == 0; dumps AND NOT mask == 0 "
    "with the mask of data-carrying bits computed by the reference model. Non-trivial = consumed > 0 and (a mask bit is 0, "
    "or a dynamic member, or a bit-field); distinct by (definition, cfg, input)."
)
ASSUMPTIONS = [
    "canonical inputs only (minimal LEB128, no NaN in any float view, valid UTF-16), as the property's quantifier says",
    "unions: data mask = OR of the members' masks",
    "x[EOF] members only in packed mode (padding after an end-of-stream array cannot round-trip by definition)",
]


@st.composite
def raw_case(draw):
    cfg = draw(gens.config(flip=True))
    o = gens.opts(max_fields=4, max_depth=1, align_hint=cfg["align"])
    d = draw(gens.definition(o))
    data = draw(st.binary(min_size=0, max_size=48))
    if draw(st.booleans()):
        data = data + bytes(24)
    return {"defs": d["defs"], "root": "Root", "cfg": cfg, "data": data.hex(), "raw": True}


def run_case(case, ctx):
    ref = common.reference(case)
    ctx.count("input:" + ref["status"] + (":raw" if case.get("raw") else ""))
    if ref["status"] != "ok":
        return
    sem, data, mask, end = ref["sem"], ref["data"], ref["mask"], ref["end"]
    cs = common.load(case)
    if case["cfg"].get("load_endian"):
        ctx.count("endian-switched-after-load")
    if case["cfg"].get("grow") and libside._grow_plan(case["defs"], case["cfg"]):
        ctx.count("root-declared-short-used-then-completed-through-add_field")
    T = cs.Root
    s = io.BytesIO(data)
    obj = lib(T, s)
    if isinstance(obj, Err):
        raise Violation("accepted-input-rejected", f"{common.describe(case)} -> {obj}", obj.where)
    tell = s.tell()
    if tell != end:
        raise Violation("consumed-differs", f"parser consumed {tell} bytes, reference {end}: {common.describe(case)}")
    out = lib(obj.dumps)
    if isinstance(out, Err):
        raise Violation("dumps-raised", f"{common.describe(case)} -> {out}", out.where, {"exc": out.type})
    if len(out) != tell:
        raise Violation("length-differs", f"dumps produced {len(out)} bytes, parsing consumed {tell}: {common.describe(case)} dumps={out.hex()}")
    bad_data = [i for i in range(end) if (out[i] ^ data[i]) & mask[i]]
    if bad_data:
        raise Violation(
            "data-bits-differ",
            f"bytes {bad_data[:8]} differ at data-carrying bits: {common.describe(case)} dumps={out.hex()} mask={bytes(mask[:end]).hex()}",
            info={"bad": bad_data},
        )
    bad_pad = [i for i in range(end) if out[i] & ~mask[i] & 0xFF]
    if bad_pad:
        raise Violation(
            "padding-not-zero",
            f"bytes {bad_pad[:8]} carry non-zero padding/unassigned bits: {common.describe(case)} dumps={out.hex()} mask={bytes(mask[:end]).hex()}",
        )
    # every way of writing the object, and every way of parsing the same bytes first, gives these bytes
    forms = {"T.dumps(obj)": lambda: T.dumps(obj), "bytes(obj)": lambda: bytes(obj), "second obj.dumps()": lambda: obj.dumps()}

    def via_write(call):
        w = io.BytesIO(b"\xee" * 16)
        w.seek(16)
        call(w)
        return w.getvalue()[16:]

    forms["obj.write(stream at 16)"] = lambda: via_write(lambda w: obj.write(w))
    forms["T.write(stream at 16, obj)"] = lambda: via_write(lambda w: T.write(w, obj))
    if not gens.has_eof(sem.res(common.ROOT)):
        forms["T(bytes).dumps()"] = lambda: T(bytes(data)).dumps()
        forms["T(memoryview).dumps()"] = lambda: T(memoryview(data)).dumps()
        forms["T.reads(bytearray).dumps()"] = lambda: T.reads(bytearray(data)).dumps()
        forms["cs.read(name, stream).dumps()"] = lambda: cs.read("Root", io.BytesIO(data)).dumps()
    for name_, call in forms.items():
        o2 = lib(call)
        if isinstance(o2, Err) or bytes(o2) != out:
            raise Violation("dump-form-differs", f"{name_} gives {o2 if isinstance(o2, Err) else bytes(o2).hex()!r}, obj.dumps() gave {out.hex()}: {common.describe(case)}")
    feats = common.model_features(sem, common.ROOT)
    for f in feats:
        if not f.startswith("fields:"):
            ctx.count("has:" + f)
    ctx.count("cfg:" + ("aligned" if case["cfg"]["align"] else "packed") + ":" + case["cfg"]["endian"] + (":compiled" if getattr(T, "__compiled__", False) else ":interpreted"))
    holes = any(m != 0xFF for m in mask[:end])
    if holes:
        ctx.count("mask:has-non-data-bits")
    if end > 0 and (holes or "dynamic" in feats or "bit-field" in feats):
        ctx.mark_nontrivial([case["defs"], case["cfg"], case["data"]])
        ctx.sample(common.describe(case, {"consumed": end, "mask": bytes(mask[:end]).hex()}), "dyn" if "dynamic" in feats else "static")


def stages(tier):
    n = 1 if tier == "quick" else 15
    return [
        HypStage("constructive", lambda: gens.input_case(gens.opts(long_strings=True, null_structs=True, multidim_dyn=True, bits_char=True, bits_odd=True, wide_bits=True), cfg_kw={"flip": True}), examples=(1200 if tier == "quick" else 6000), shards=8 if tier == "quick" else 16),
        HypStage("raw", raw_case, examples=(600 if tier == "quick" else 4000), shards=4 if tier == "quick" else 8),
        # wider and deeper definitions than the main search draws: up to 14 members per level, depth 3, fixed counts up to 20
        HypStage("large", lambda: gens.input_case(gens.opts(max_fields=14, max_depth=3, max_len=20, null_structs=True, multidim_dyn=True, bits_char=True, bits_odd=True, wide_bits=True), cfg_kw={"flip": True}), examples=(150 if tier == "quick" else 2000), shards=4 if tier == "quick" else 8),
        EnumStage("triples", _triples, shards=4, exhaustive=False, scope="every ordered triple of 17 field kinds (incl. enum-, char- and 24-bit-backed bit-fields) x {packed, aligned}, compiled reader, one patterned input each"),
    ]


def _triples():
    from props.c03 import triple_cases

    yield from triple_cases()


# ---------------------------------------------------------------- known findings

def _explained(case):
    ref = common.reference(case)
    spans = common.neg_flag_spans(ref)
    flag_bytes = {i for a, b in spans for i in range(a, b)}
    return ref, flag_bytes, common.union_dump_blind_spots(ref)


def _kf_signed_flag(case, v):
    ref, flag_bytes, blind = _explained(case)
    if not flag_bytes:
        return False
    if v.kind == "data-bits-differ":
        bad = v.info.get("bad", [])
        return bool(bad) and any(i in flag_bytes for i in bad) and all(i in flag_bytes or i in blind for i in bad)
    if v.kind == "dumps-raised":
        return v.info.get("exc") in ("OverflowError", "error") and v.where in ("int.py:_write", "packed.py:_write", "packed.py:_write_array")
    return False


def _kf_union_dump(case, v):
    if v.kind != "data-bits-differ":
        return False
    ref, flag_bytes, blind = _explained(case)
    bad = v.info.get("bad", [])
    return bool(bad) and any(i in blind for i in bad) and all(i in flag_bytes or i in blind for i in bad)


KNOWN_PREDICATES = {"signed-flag-negative-value": _kf_signed_flag, "union-dump-largest-member-only": _kf_union_dump}
