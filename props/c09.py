"""C09 — stream discipline: position-independent and consistent across input kinds and call forms."""
from __future__ import annotations

import atexit
import io
import os
import shutil
import tempfile

from hypothesis import strategies as st

from pbt import common, gens, libside, refsem
from pbt.drive import EnumStage, Err, HypStage, Violation, lib
from pbt.faultio import MinimalStream

ID = "C09"
RULE = (
    "cases: generated definition x configuration x constructive input, re-parsed (metamorphic against the offset-0 "
    "bytes baseline T(data)) at a generated start offset p (multiple of 16 for aligned structures, any for packed) "
    "behind two different random prefixes and in front of two different random suffixes, from every input kind {bytes, "
    "bytearray, memoryview, BytesIO, minimal read/seek/tell object, real file opened 'rb'} through every call form "
    "{T(x), T.read(x), T.reads(x), cs.read(name, x)}; definitions ending in x[EOF] also with an incomplete element "
    "behind the last whole one (refused, or the whole elements with the stream left behind them); plus read sequences of 2-4 values parsed back-to-back from one "
    "stream. Oracle: equal canonical value and equal recorded sizes, tell() == p + consumed (consumed from the reference "
    "model), independence of bytes before p and after the extent, each read in a sequence returns its solo value and "
    "positions accumulate. Non-trivial = p > 0 with one of {alignment padding, union, nested struct, bit-field, dynamic "
    "member}, or a sequence of >= 2 reads; distinct by (definition, cfg, input, p)."
)
ASSUMPTIONS = [
    "x[EOF] members are excluded: their extent is the end of input by definition, so a suffix changes the value",
    "pointer fields are compared by address only (no dereference)",
    "aligned structures are started at multiples of 16 (the largest alignment), as the property's quantifier says",
]

_TMP = None


def _tmpdir():
    global _TMP
    if _TMP is None:
        _TMP = tempfile.mkdtemp(prefix="vp-c09-")
        atexit.register(shutil.rmtree, _TMP, ignore_errors=True)
    return _TMP


@st.composite
def stream_case(draw):
    union_root = draw(st.integers(0, 4)) == 0
    o = gens.opts(max_fields=5, max_depth=2, eof=True, signed_flags=False, long_strings=True, null_structs=True, bits_char=True, bits_odd=True, wide_bits=True, dynamic=not union_root)
    case = draw(gens.input_case(o, tail=False, root_kind="union" if union_root else "struct", cfg_kw={"flip": True}))
    align = case["cfg"]["align"]
    sem = refsem.Sem(case["defs"], case["cfg"])
    # aligned structures start at a multiple of their own alignment (not only at multiples of 16)
    p = draw(st.integers(0, 12)) * max(1, sem.align(gens.ROOT)) if align else draw(st.integers(0, 40))
    case["p"] = p
    # a second value of the same type for read sequences, and a cut position for the truncated-input relation
    if not union_root:
        try:
            v2 = gens.gen_value(draw, sem, gens.ROOT)
            case["data2"] = bytes(sem.encode(gens.ROOT, v2)).hex()
        except (OverflowError, refsem.DefinitionError):
            pass
    case["cut"] = draw(st.integers(0, 10_000))
    case["prefixes"] = [draw(st.binary(min_size=p, max_size=p)).hex(), draw(st.binary(min_size=p, max_size=p)).hex()]
    case["suffixes"] = [draw(st.binary(max_size=12)).hex(), draw(st.binary(max_size=12)).hex()]
    # sequence: further inputs for the same type, parsed back-to-back (aligned: each start must stay aligned)
    case["seq"] = draw(st.integers(0, 3))
    return case


def _sizes(obj):
    """Recorded sizes, or None for an object built by the documented single-char-field shortcut (T(b"ab") for
    struct { char f0[2]; } constructs instead of parsing: same value, no recorded sizes, like any constructed object)."""
    if not hasattr(obj, "_sizes"):
        return None
    return dict(obj._sizes or {})


def _eof_elem_size(sem, t):
    """Fixed element size of the to-end-of-stream array a structure ends in (None: no such array, or elements without one)."""
    while t["k"] == "st" and t["fields"]:
        t = sem.res(t["fields"][-1]["t"])
    if t["k"] == "a" and t["len"][0] == "eof":
        try:
            return sem.size(t["t"])
        except Exception:  # noqa: BLE001 - dynamically sized elements
            return None
    return None


def run_case(case, ctx):
    ref = common.reference(case)
    if ref["status"] != "ok":
        ctx.count("input:" + ref["status"])
        return
    sem, end = ref["sem"], ref["end"]
    data = ref["data"][:end]
    if len(data) < end:
        data = data + bytes(end - len(data))
    cs = common.load(case)
    T = cs.Root
    base = lib(T, data)
    if isinstance(base, Err):
        raise Violation("accepted-input-rejected", f"{common.describe(case)} -> {base}", base.where)
    bval, bsizes = libside.cplain(base), _sizes(base)
    if bval != refsem.canon(ref["want"]):
        ctx.count("baseline-differs-from-reference(not-judged-here)")
    p = case["p"]
    desc = lambda extra: common.describe(case, extra)  # noqa: E731
    n = 0
    eof_def = gens.has_eof(sem.res(common.ROOT))
    if eof_def:
        ctx.count("has:eof-member(no suffix, no sequence)")
    for pi, prefix in enumerate(case["prefixes"]):
        prefix = bytes.fromhex(prefix)
        for si, suffix in enumerate(case["suffixes"]):
            suffix = b"" if eof_def else bytes.fromhex(suffix)
            whole = prefix + data + suffix
            tail = data + suffix
            variants = []
            # buffer kinds have no position: they carry the bytes from p onward
            kinds = [("bytes", lambda: bytes(tail)), ("bytearray", lambda: bytearray(tail)), ("memoryview", lambda: memoryview(tail))]
            if len(tail) % 2 == 0 and tail:
                kinds.append(("memoryview-of-uint16-items", lambda: memoryview(bytes(tail)).cast("H")))
            for kind, mk in kinds:
                for form in ("T(x)", "T.read(x)", "T.reads(x)", "cs.read(name,x)"):
                    variants.append((kind, form, mk, None))
            if pi == si:  # streams: full prefix+data+suffix, positioned at p
                def mk_bio():
                    s = io.BytesIO(whole)
                    s.seek(p)
                    return s

                def mk_min():
                    return MinimalStream(whole, p)

                def mk_file():
                    path = os.path.join(_tmpdir(), f"in-{os.getpid()}.bin")
                    with open(path, "wb") as fh:
                        fh.write(whole)
                    fh = open(path, "rb")  # noqa: SIM115 - closed below
                    fh.seek(p)
                    return fh

                for kind, mk in (("BytesIO", mk_bio), ("minimal-filelike", mk_min), ("file", mk_file)):
                    for form in ("T(x)", "T.read(x)", "cs.read(name,x)"):
                        variants.append((kind, form, mk, p))
            for kind, form, mk, pos in variants:
                x = mk()
                try:
                    if form == "T(x)":
                        r = lib(T, x)
                    elif form == "T.read(x)":
                        r = lib(T.read, x)
                    elif form == "T.reads(x)":
                        r = lib(T.reads, x)
                    else:
                        r = lib(cs.read, "Root", x)
                    n += 1
                    what = {"input_kind": kind, "call": form, "p": p, "prefix": pi, "suffix": si}
                    if isinstance(r, Err):
                        raise Violation("variant-raised", f"{what}: {r}; baseline T(bytes) gives {bval!r}: {desc(what)}", r.where, {"kind": kind, "form": form})
                    if libside.cplain(r) != bval:
                        raise Violation("value-differs", f"{what}: {libside.cplain(r)!r} vs baseline {bval!r}: {desc(what)}", info={"kind": kind, "form": form})
                    if _sizes(r) is None or bsizes is None:
                        ctx.count("sizes:not-recorded(single-char-shortcut)")
                    elif _sizes(r) != bsizes:
                        raise Violation("sizes-differ", f"{what}: {_sizes(r)} vs baseline {bsizes}: {desc(what)}")
                    if pos is not None and x.tell() != p + end:
                        raise Violation("position-wrong", f"{what}: stream left at {x.tell()}, expected p + consumed = {p + end}: {desc(what)}")
                    ctx.count(f"kind:{kind}")
                    ctx.count(f"call:{form}")
                finally:
                    if kind == "file":
                        x.close()
    # ---- a to-end-of-stream array followed by an incomplete element: refused, or (DESIGN §3.5) the whole elements -- then
    # the stream stands behind the last whole element, the incomplete one is not swallowed
    es = _eof_elem_size(sem, sem.res(common.ROOT)) if eof_def else None
    if es and es > 1:
        extra = bytes([0xEE]) * (1 + case.get("cut", 0) % (es - 1))
        pre0 = bytes.fromhex(case["prefixes"][0])
        for kind, mk in (("BytesIO", lambda: io.BytesIO(pre0 + data + extra)), ("minimal-filelike", lambda: MinimalStream(pre0 + data + extra, 0))):
            x = mk()
            x.seek(p)
            r = lib(T, x)
            n += 1
            what = {"input_kind": kind, "p": p, "incomplete_element_bytes": len(extra), "element_size": es}
            if isinstance(r, Err):
                ctx.count("ragged-tail:raised:" + r.type)
            else:
                if libside.cplain(r) != bval:
                    raise Violation("value-differs", f"{what}: {libside.cplain(r)!r}; the whole elements give {bval!r}: {desc(what)}")
                if x.tell() != p + end:
                    raise Violation("position-wrong", f"{what}: a value of {end} bytes was returned and the stream left at {x.tell()}, expected p + {end} = {p + end}: {desc(what)}")
                ctx.count("ragged-tail:whole-elements")
    # ---- a truncated input: every input kind and call form gives the same outcome (same exception class, or same value)
    if end >= 1:
        cutpos = case.get("cut", 0) % end
        cutb = data[:cutpos]
        outcomes = {}
        for kind, mk in (("bytes", lambda: bytes(cutb)), ("bytearray", lambda: bytearray(cutb)), ("memoryview", lambda: memoryview(cutb)), ("BytesIO", lambda: io.BytesIO(cutb)), ("minimal-filelike", lambda: MinimalStream(cutb, 0))):
            forms = ("T(x)", "T.read(x)", "cs.read(name,x)") + (("T.reads(x)",) if kind in ("bytes", "bytearray", "memoryview") else ())
            for form in forms:
                x = mk()
                r = lib(T, x) if form == "T(x)" else lib(T.read, x) if form == "T.read(x)" else lib(T.reads, x) if form == "T.reads(x)" else lib(cs.read, "Root", x)
                n += 1
                outcomes[(kind, form)] = ("raised", r.type) if isinstance(r, Err) else ("value", libside.cplain(r))
        distinct = {repr(v) for v in outcomes.values()}
        if len(distinct) > 1:
            raise Violation("truncated-input-outcome-differs", f"input cut at {cutpos} of {end}: outcomes by (kind, form): { {k_: v for k_, v in outcomes.items()} }: {desc({'cut': cutpos})}")
        ctx.count("truncated:" + next(iter(outcomes.values()))[0])
    # ---- read sequences on one stream (alternating two different values of the type)
    k = 0 if eof_def else case["seq"]
    if k:
        datas = [(data, end, bval, bsizes)]
        if case.get("data2"):
            d2 = bytes.fromhex(case["data2"])
            b2 = lib(T, d2)
            if not isinstance(b2, Err):
                datas.append((d2, len(d2), libside.cplain(b2), _sizes(b2)))
                ctx.count("sequence:alternating-two-values")
        unit = max(1, sem.align(common.ROOT)) if case["cfg"]["align"] else 1
        stream_bytes = b""
        starts = []
        for i in range(k + 1):
            d_, e_, _, _ = datas[i % len(datas)]
            starts.append(len(stream_bytes))
            stream_bytes += d_[:e_] + bytes(-e_ % unit)
        s = io.BytesIO(stream_bytes + b"\xa5\xa5")
        for i in range(k + 1):
            d_, e_, v_, sz_ = datas[i % len(datas)]
            s.seek(starts[i])
            r = lib(T, s) if i % 2 == 0 else lib(cs.read, "Root", s)
            n += 1
            what = {"sequence_index": i, "of": k + 1}
            if isinstance(r, Err) or libside.cplain(r) != v_ or (sz_ is not None and _sizes(r) != sz_):
                raise Violation("sequence-differs", f"{what}: read #{i} on a shared stream gave {r!r}, solo value {v_!r}: {desc(what)}")
            if s.tell() != starts[i] + e_:
                raise Violation("position-wrong", f"{what}: stream at {s.tell()}, expected {starts[i] + e_}: {desc(what)}")
        step = end + (-end % unit)
        # really back-to-back (no explicit seek) when no re-alignment is needed between values
        if all(starts[i + 1] == starts[i] + datas[i % len(datas)][1] for i in range(k)):
            s.seek(0)
            for i in range(k + 1):
                r = lib(T, s)
                if isinstance(r, Err) or libside.cplain(r) != datas[i % len(datas)][2]:
                    raise Violation("sequence-differs", f"back-to-back read #{i} gave {r!r}, solo value {datas[i % len(datas)][2]!r}: {desc({'sequence_index': i})}")
            if s.tell() != len(stream_bytes):
                raise Violation("position-wrong", f"after {k + 1} back-to-back reads stream at {s.tell()}, expected {len(stream_bytes)}: {desc({})}")
            ctx.count("sequence:back-to-back")
        ctx.count("sequence:reads", k + 1)
    ctx.evaluations += n - 1
    feats = common.model_features(sem, common.ROOT)
    for f in feats & {"bit-field", "dynamic", "nested-struct", "nested-union", "pointer", "anonymous-member"}:
        ctx.count("has:" + f)
    holes = any(m != 0xFF for m in ref["mask"][:end])
    if holes:
        ctx.count("has:padding")
    ctx.count("p:zero" if p == 0 else "p:positive")
    ctx.count("cfg:" + ("aligned" if case["cfg"]["align"] else "packed") + (":compiled" if getattr(T, "__compiled__", False) else ":interpreted"))
    if (p > 0 and (holes or feats & {"bit-field", "dynamic", "nested-struct", "nested-union"})) or k >= 1:
        ctx.mark_nontrivial([case["defs"], case["cfg"], case["data"], p])
        ctx.sample(common.describe(case, {"p": p, "variants": n, "sequence": k + 1}), "aligned" if case["cfg"]["align"] else "packed")


# ---------------------------------------------------------------- dynamically sized unions (read-only in the library)

DYN_MEMBERS = [
    "struct {{ uint8 len; char data[len]; }} {n};", "struct {{ uint8 len; uint16 v[len]; uint8 t; }} {n};", "uint8 {n}[];", "char {n}[];",
    "uint16 {n};", "uint32 {n};", "struct {{ uint8 k; struct {{ uint8 m; char s[m]; }} in[k]; }} {n};", "uleb128 {n};",
]


@st.composite
def dynunion_case(draw):
    members = draw(st.lists(st.sampled_from(DYN_MEMBERS), min_size=1, max_size=3))
    if not any("[" in m_ or "leb" in m_ for m_ in members):
        members.append(DYN_MEMBERS[0])
    body = " ".join(m_.format(n=f"m{i}") for i, m_ in enumerate(members))
    pre = draw(st.sampled_from(["", "uint8 p0;", "uint16 p0; uint8 p1;", "char p0[3];"]))
    post = draw(st.sampled_from(["", "uint8 q0;", "uint16 q0;"]))
    top = draw(st.booleans()) and not pre and not post
    text = f"union Root {{ {body} }};" if top else f"struct Root {{ {pre} union {{ {body} }} u; {post} }};"
    data = bytearray(draw(st.binary(min_size=24, max_size=40)))
    for i in range(0, len(data), 3):
        data[i] %= 4  # keep embedded lengths small so that most inputs parse
    p = draw(st.integers(0, 24))
    return {"dynunion": True, "text": text, "data": bytes(data).hex(), "p": p, "prefix": draw(st.binary(min_size=p, max_size=p)).hex(),
            "suffix": draw(st.binary(max_size=8)).hex(), "compiled": draw(st.booleans()), "endian": draw(st.sampled_from("<>"))}


def _sizes_tree(obj):
    """Recorded sizes of a parsed structure and, recursively, of its structure-valued members."""
    out = {}
    for name, size in dict(getattr(obj, "_sizes", None) or {}).items():
        out[name] = size
    for name in list(getattr(obj, "_values", None) or {}):
        v = getattr(obj, name, None)
        if hasattr(v, "_sizes") and hasattr(v, "_values"):
            out[name + "."] = _sizes_tree(v)
    return out


# ---------------------------------------------------------------- types other than structures as the called type

LEAF_DEFS = "enum E : uint16 { A = 1, B = 2 }; flag F : uint8 { X = 1, Y = 2 }; typedef uint32 myint; typedef uint16 pair_t[2]; struct S { uint8 a; uint16 b; }; union U { uint16 w; uint8 b[2]; };"
LEAF_TYPES = ["uint16", "int24", "uint64", "float", "char", "wchar", "uleb128", "E", "F", "myint", "pair_t", "uint16[3]", "int24[2]", "char[4]", "char[]", "wchar[2]", "wchar[]", "uint16[]", "E[2]", "F[]", "S[2]", "U", "U[2]", "uleb128[2]"]


@st.composite
def leaf_case(draw):
    p = draw(st.integers(0, 33))
    return {"leaf": True, "type": draw(st.sampled_from(LEAF_TYPES)), "endian": draw(st.sampled_from("<>")), "p": p, "prefix": draw(st.binary(min_size=p, max_size=p)).hex(),
            "data": draw(st.binary(min_size=24, max_size=24)).hex(), "suffix": draw(st.binary(max_size=6)).hex()}


def _run_leaf(case, ctx):
    from pbt.drive import import_repo

    m = import_repo()
    cs = m.cstruct(endian=case["endian"])
    cs.load(LEAF_DEFS)
    tn = case["type"]
    base_name, _, dim = tn.partition("[")
    T = getattr(cs, base_name)
    if dim:
        T = T[int(dim[:-1]) if dim[:-1] else None]
    data = bytearray(bytes.fromhex(case["data"]))
    if tn.startswith("wchar"):
        data = bytearray("ab\u20acd\x00xyzwvuts".encode("utf-16-le" if case["endian"] == "<" else "utf-16-be"))[:24]
    if tn.startswith("float"):
        data[0:4] = b"\x00\x00\x80\x3f" if case["endian"] == "<" else b"\x3f\x80\x00\x00"
    if tn.startswith("uleb128"):
        data[2] &= 0x7F
        data[5] &= 0x7F
    if tn.endswith("[]"):
        data[12:16] = b"\x00\x00\x00\x00"  # a terminator for every element size used here
    data = bytes(data)
    s0 = io.BytesIO(data)
    base = lib(T, s0)
    if isinstance(base, Err):
        raise Violation("accepted-input-rejected", f"{tn}({data.hex()}) raised {base}", base.where)
    bval, t0 = libside.cplain(base), s0.tell()
    val = data[:t0]
    p, prefix, suffix = case["p"], bytes.fromhex(case["prefix"]), bytes.fromhex(case["suffix"])
    whole = prefix + val + suffix
    n = 0
    variants = []
    bufkinds = [("bytes", lambda: bytes(val + suffix)), ("bytearray", lambda: bytearray(val + suffix)), ("memoryview", lambda: memoryview(val + suffix))]
    if t0 and not tn.endswith("[]") and "leb" not in tn:
        # a view of 2- / 4-byte items holding exactly 2x / 4x the type's size: its len() equals len(T) although it is longer
        bufkinds.append(("memoryview-of-uint16-items(len == size)", lambda: memoryview(val + data[t0 : 2 * t0].ljust(t0, b"\x00")).cast("H")))
        if t0 % 1 == 0:
            bufkinds.append(("memoryview-of-uint32-items(len == size)", lambda: memoryview((val + data[t0:] + bytes(4 * t0))[: 4 * t0]).cast("I")))
    for kind, mk in bufkinds:
        for form in ("T(x)", "T.read(x)", "T.reads(x)") + (("cs.read(name,x)",) if not dim else ()):
            variants.append((kind, form, mk, False))
    for kind, mk in (("BytesIO", lambda: io.BytesIO(whole)), ("minimal-filelike", lambda: MinimalStream(whole, 0))):
        for form in ("T(x)", "T.read(x)") + (("cs.read(name,x)",) if not dim else ()):
            variants.append((kind, form, mk, True))
    for kind, form, mk, is_stream in variants:
        x = mk()
        if is_stream:
            x.seek(p)
        if kind != "bytes" and tn in ("char", "char[4]") and form == "T(x)" and not is_stream and len(val + suffix) == t0:
            pass
        r = lib(T, x) if form == "T(x)" else lib(T.read, x) if form == "T.read(x)" else lib(T.reads, x) if form == "T.reads(x)" else lib(cs.read, base_name, x)
        n += 1
        what = {"type": tn, "input_kind": kind, "call": form, "p": p if is_stream else None, "endian": case["endian"], "data": val.hex()}
        if isinstance(r, Err):
            raise Violation("variant-raised", f"{what}: {r}; T(BytesIO) of the same bytes gives {bval!r}", r.where, {"kind": kind, "form": form})
        if libside.cplain(r) != bval:
            raise Violation("value-differs", f"{what}: {libside.cplain(r)!r} vs {bval!r}", info={"kind": kind, "form": form})
        if is_stream and x.tell() != p + t0:
            raise Violation("position-wrong", f"{what}: stream left at {x.tell()}, expected {p + t0}")
    ctx.evaluations += n - 1
    ctx.count("leaf:" + tn)
    if p > 0 and t0 >= 2:
        ctx.mark_nontrivial([tn, case["endian"], case["data"], p])
        ctx.sample({"type": tn, "p": p, "consumed": t0, "variants": n}, "leaf")


def _run_dynunion(case, ctx):
    from pbt.drive import import_repo

    m = import_repo()
    cs = m.cstruct(endian=case["endian"])
    r = lib(cs.load, case["text"], compiled=case["compiled"])
    if isinstance(r, Err):
        raise Violation("definition-rejected", f"{case['text']}: {r}", r.where)
    T = cs.Root
    data = bytes.fromhex(case["data"])
    s0 = io.BytesIO(data)
    base = lib(T, s0)
    if isinstance(base, Err):
        ctx.count("dynunion:baseline-raised:" + base.type)
        return
    bval, t0 = libside.cplain(base), s0.tell()
    p, prefix, suffix = case["p"], bytes.fromhex(case["prefix"]), bytes.fromhex(case["suffix"])
    whole = prefix + data + suffix
    for kind, mk in (("BytesIO", lambda: io.BytesIO(whole)), ("minimal-filelike", lambda: MinimalStream(whole, 0))):
        x = mk()
        x.seek(p)
        r = lib(T.read, x)
        what = {"input_kind": kind, "p": p, "definition": case["text"], "data": case["data"], "prefix": case["prefix"]}
        if isinstance(r, Err):
            raise Violation("variant-raised", f"{what}: {r}; at offset 0 the same bytes give {bval!r}", r.where)
        if libside.cplain(r) != bval:
            raise Violation("value-differs", f"{what}: {libside.cplain(r)!r} vs {bval!r} at offset 0")
        if x.tell() != p + t0:
            raise Violation("position-wrong", f"{what}: stream left at {x.tell()}, expected p + {t0} = {p + t0}")
        if _sizes_tree(r) != _sizes_tree(base):
            raise Violation("sizes-differ", f"{what}: recorded sizes {_sizes_tree(r)} vs {_sizes_tree(base)} at offset 0")
    # buffer kinds carry the bytes from the value's start on; every call form parses them
    for kind, mk in (("bytes", lambda: bytes(data + suffix)), ("bytearray", lambda: bytearray(data + suffix)), ("memoryview", lambda: memoryview(data + suffix))):
        for form, call in (("T(x)", lambda x: T(x)), ("T.read(x)", lambda x: T.read(x)), ("T.reads(x)", lambda x: T.reads(x)), ("cs.read(name,x)", lambda x: cs.read("Root", x))):
            r = lib(call, mk())
            what = {"input_kind": kind, "call": form, "definition": case["text"], "data": case["data"]}
            if isinstance(r, Err):
                raise Violation("variant-raised", f"{what}: {r}; T(BytesIO) of the same bytes gives {bval!r}", r.where, {"kind": kind, "form": form})
            if libside.cplain(r) != bval or _sizes_tree(r) != _sizes_tree(base):
                raise Violation("value-differs", f"{what}: {libside.cplain(r)!r} sizes {_sizes_tree(r)} vs {bval!r} sizes {_sizes_tree(base)}", info={"kind": kind, "form": form})
    # (no back-to-back sequence here: a dynamic union's value may depend on bytes beyond the position it leaves the
    # stream at - its recorded extent is the end of its last member - so concatenating extents is not meaningful)
    ctx.count("dynunion:checked")
    if p > 0:
        ctx.mark_nontrivial(case)
        ctx.sample({"definition": case["text"], "p": p, "data": case["data"]}, "dynunion")


_run_case_static = run_case


# counts a parse computes from the data, including the values a reader might use as internal markers (to-end-of-stream,
# null-terminated): whatever the count, the record ends where its elements end
SPECIAL_COUNTS = [-0xE0F, -0xE0F + 1, -0xE0F - 1, -1, -2, -256, 0, 1, 3]
COUNT_ELEMS = {"uint8": 1, "uint16": 2, "char": 1, "wchar": 2, "int24": 3, "S": 3}
COUNT_FORMS = {"n": 0, "n - 3600": -3600, "n + 1": 1}


def count_cases():
    for n in SPECIAL_COUNTS:
        for et in COUNT_ELEMS:
            for form in COUNT_FORMS:
                for compiled in (False, True):
                    yield {"counts": True, "count": n, "elem": et, "form": form, "compiled": compiled, "endian": "<" if (n + len(et)) % 2 else ">"}


def _run_counts(case, ctx):
    """struct Root { int16 n; T data[<form of n>]; uint16 tail; } somewhere inside a stream, with other bytes in front and
    behind: every input kind / call form gives the value of the record parsed on its own, leaves the stream behind the
    record and does not look at what follows."""
    from pbt.drive import import_repo

    m = import_repo()
    et, form, want = case["elem"], case["form"], max(0, case["count"])
    n = case["count"] - COUNT_FORMS[form]
    cs = m.cstruct(endian=case["endian"])
    text = "struct S { uint8 a; uint16 b; };\n" + f"struct Root {{ int16 n; {et} data[{form}]; uint16 tail; }};\n"
    r = lib(cs.load, text, compiled=case["compiled"])
    if isinstance(r, Err):
        raise Violation("definition-rejected", f"{text}: {r}", r.where)
    T = cs.Root
    order = "little" if case["endian"] == "<" else "big"
    body = b"".join((0x41 + i).to_bytes(2, order) if et == "wchar" else bytes([0x41 + i] * COUNT_ELEMS[et]) for i in range(want))
    rec = n.to_bytes(2, order, signed=True) + body + b"\xEE\xEE"
    what0 = {"definition": f"int16 n; {et} data[{form}]; uint16 tail;", "n": n, "count": case["count"], "record": rec.hex(), "compiled": case["compiled"], "endian": case["endian"]}
    base = lib(T, rec)
    if isinstance(base, Err):
        raise Violation("accepted-input-rejected", f"{what0} -> {base}", base.where)
    bval = libside.cplain(base)
    if len(base.data) != want or base.tail != 0xEEEE:
        raise Violation("value-differs", f"{what0}: the record on its own parses to {bval!r}; it holds {want} elements and tail 0xEEEE")
    runs = 0
    for prefix, suffix in ((b"", b"\x01\x00\x00\x01" * 3), (b"\x7f" * 5, b"A\x00" * 6), (b"\x00", b"")):
        data = prefix + rec + suffix
        p = len(prefix)
        for kind in ("BytesIO", "minimal"):
            for form_, call in (("T(x)", lambda x: T(x)), ("T.read(x)", lambda x: T.read(x)), ("cs.read", lambda x: cs.read("Root", x))):
                s_ = io.BytesIO(data) if kind == "BytesIO" else MinimalStream(data)
                s_.seek(p)
                got = lib(call, s_)
                runs += 1
                what = dict(what0, input_kind=kind, call=form_, p=p, suffix=suffix.hex())
                if isinstance(got, Err):
                    raise Violation("accepted-input-rejected", f"{what} -> {got}", got.where)
                if libside.cplain(got) != bval:
                    raise Violation("value-differs", f"{what}: {libside.cplain(got)!r} vs the record parsed on its own {bval!r}")
                if s_.tell() != p + len(rec):
                    raise Violation("position-differs", f"{what}: stream at {s_.tell()}, expected {p} + {len(rec)}")
        if not prefix:
            for form_, call in (("T(bytes)", lambda: T(data)), ("T.reads(bytes)", lambda: T.reads(data)), ("T(bytearray)", lambda: T(bytearray(data))), ("T(memoryview)", lambda: T(memoryview(data)))):
                got = lib(call)
                runs += 1
                if isinstance(got, Err) or libside.cplain(got) != bval:
                    raise Violation("value-differs", f"{dict(what0, call=form_, suffix=suffix.hex())}: {got if isinstance(got, Err) else libside.cplain(got)!r} vs the record parsed on its own {bval!r}")
    ctx.evaluations += runs - 1
    ctx.count("special-count:" + ("marker" if case["count"] == -0xE0F else "negative" if case["count"] < 0 else "non-negative"))
    ctx.mark_nontrivial(case)
    if case["count"] in (-0xE0F, 3) and et in ("char", "S"):
        ctx.sample(dict(what0, parses=runs), "special-count")


def run_case(case, ctx):  # noqa: F811 - dispatch on the case kind
    if case.get("counts"):
        return _run_counts(case, ctx)
    if case.get("dynunion"):
        return _run_dynunion(case, ctx)
    if case.get("leaf"):
        return _run_leaf(case, ctx)
    return _run_case_static(case, ctx)


def stages(tier):
    q = tier == "quick"
    return [
        HypStage("streams", stream_case, examples=350 if q else 3000, shards=10 if q else 16),
        HypStage("dynamic-unions", dynunion_case, examples=400 if q else 4000, shards=2 if q else 4),
        HypStage("leaf-types", leaf_case, examples=500 if q else 4000, shards=2 if q else 4),
        EnumStage("special-counts", count_cases, shards=2, scope="9 data-derived count values (the readers' internal markers and their neighbours, negative, zero, small) x 6 element types x 3 expression forms x both readers; record inside a stream with bytes in front and behind, 2 stream kinds x 3 call forms x 3 placements + 4 bytes-like forms"),
    ]
