"""C20 — generated type stubs are valid Python naming exactly the loaded definitions."""
from __future__ import annotations

import ast
import keyword

from hypothesis import strategies as st

from pbt import defset
from pbt.drive import Err, HarnessError, HypStage, Violation, import_repo, lib

ID = "C20"
RULE = (
    "cases: generated definition sets (structs, unions, nested/anonymous members, arrays of anonymous structs, bit-fields, "
    "pointers, enums/flags incl. anonymous ones, typedef chains, several names after a struct typedef, array and pointer "
    "typedefs, #define constants of int/str/bytes/float/tuple literals and unevaluated text) loaded through load(); a "
    "separately counted class uses Python keywords as field names. Oracle: ast.parse(generate_cstruct_stub(cs)) succeeds; "
    "walking the class body, the declared names (ClassDef / annotated assignment / alias) include every user-defined type, "
    "alias and constant, and every declared name is provided by the cstruct object (getattr works); constants are "
    "Literal[...] of the constant's value; enum classes list exactly the members; for every structure the annotated "
    "fields are T.fields' keys in order and every hint, decoded structurally (Array[..], Pointer[..], CharArray, "
    "WcharArray, cstruct.X, inline class), denotes the field's actual type object. Non-trivial = >= 2 kinds of "
    "definitions incl. a nested/anonymous member or an alias; distinct by definition text."
)
ASSUMPTIONS = [
    "field names that are Python keywords cannot be spelled as attributes in any stub; that class is generated and counted separately so that it does not mask other stub defects (DESIGN §3.17)",
]

CONST_FORMS = ['{v}', '0x{v:x}', '"text{v}"', "b'\\x0{v}ab'", "{v}.5", "({v}, {v})", "{v} + sizeof(uint16)", "some unevaluated text {v}", "'single'"]


@st.composite
def stub_case(draw, keywords=False):
    items = draw(defset.defset(max_items=7, keywords=keywords))
    js = []
    for it in items:
        j = it.to_json()
        if hasattr(it, "anon_members"):
            j["anon_members"] = it.anon_members
        js.append(j)
    consts = []
    for i in range(draw(st.integers(0, 3))):
        v = draw(st.integers(0, 9))
        consts.append([f"CONST{i}", draw(st.sampled_from(CONST_FORMS)).format(v=v)])
    # aliases registered through the API as *names* of other types (string references)
    api_aliases = [[f"api{i}", draw(st.sampled_from(["uint32", "DWORD", "char", "unsigned int"]))] for i in range(draw(st.integers(0, 2)))]
    return {"items": js, "consts": consts, "keywords": keywords, "compiled": draw(st.booleans()), "api_aliases": api_aliases}


def _hint_matches(m, cs, node, t, inline, path):
    """Does the annotation AST `node` denote type object `t`? inline: {name: type} of classes declared in this body."""
    from dissect.cstruct.types.base import BaseArray

    if isinstance(node, ast.BinOp):  # 'X | None' is not used for fields
        return False, "union annotation"
    if isinstance(node, ast.Subscript):
        head = node.value.id if isinstance(node.value, ast.Name) else getattr(node.value, "attr", None)
        if head == "Array":
            if not (issubclass(t, BaseArray) and not issubclass(t, (m.CharArray, m.WcharArray))):
                return False, f"Array[...] for {t.__name__}"
            return _hint_matches(m, cs, node.slice, t.type, inline, path)
        if head == "Pointer":
            if not issubclass(t, m.Pointer):
                return False, f"Pointer[...] for {t.__name__}"
            return _hint_matches(m, cs, node.slice, t.type, inline, path)
        return False, f"unknown generic {head}"
    if isinstance(node, ast.Name):
        if node.id == "CharArray":
            return issubclass(t, m.CharArray), f"CharArray for {t.__name__}"
        if node.id == "WcharArray":
            return issubclass(t, m.WcharArray), f"WcharArray for {t.__name__}"
        if node.id in inline:
            return inline[node.id] is t, f"inline class {node.id} is not the field's type {t.__name__}"
        return False, f"bare name {node.id} is not declared in this class body"
    if isinstance(node, ast.Attribute) and isinstance(node.value, ast.Name) and node.value.id == "cstruct":
        got = lib(getattr, cs, node.attr)
        if isinstance(got, Err):
            return False, f"cstruct.{node.attr} is not provided by the cstruct object"
        return got is t, f"cstruct.{node.attr} is {getattr(got, '__name__', got)!r}, the field's type is {t.__name__!r}"
    return False, f"unsupported annotation {ast.dump(node)[:80]}"


def _check_struct(m, cs, cdef, T, path, problems):
    inline = {}
    ann = []
    for node in cdef.body:
        if isinstance(node, ast.ClassDef):
            inline[node.name] = None
        elif isinstance(node, ast.AnnAssign) and isinstance(node.target, ast.Name):
            ann.append((node.target.id, node.annotation))
    # resolve inline class names to nested types by name
    for f in T.fields.values():  # folded view: fields of anonymous members are annotated on this class
        t = f.type
        while hasattr(t, "type") and not issubclass(t, m.Structure) and not issubclass(t, (m.Enum, m.Flag)) and t.type is not None:
            t = t.type
        if isinstance(t, type) and issubclass(t, m.Structure) and t.__name__ in inline:
            inline[t.__name__] = t
    want = list(T.fields)
    got = [a for a, _ in ann]
    if got != want:
        problems.append(f"{path}: annotated fields {got}, structure fields {want}")
        return
    for (name, node), (fname, field) in zip(ann, T.fields.items()):
        ok, why = _hint_matches(m, cs, node, field.type, inline, path)
        if not ok:
            problems.append(f"{path}.{name}: hint {ast.unparse(node)!r} does not denote the field's type: {why}")
    # the keyword overload of __init__ declares the same fields with the same hints (optional)
    inits = [n for n in cdef.body if isinstance(n, ast.FunctionDef) and n.name == "__init__" and not n.args.posonlyargs]
    if len(inits) != 1:
        problems.append(f"{path}: {len(inits)} keyword __init__ overloads")
    else:
        got_args = [(a.arg, ast.unparse(a.annotation) if a.annotation is not None else None) for a in inits[0].args.args[1:]]
        want_args = [(name, ast.unparse(node) + " | None") for name, node in ann]
        if got_args != want_args:
            problems.append(f"{path}: __init__ parameters {got_args[:6]}, annotated fields {want_args[:6]}")
    for node in cdef.body:
        if isinstance(node, ast.ClassDef) and inline.get(node.name) is not None:
            _check_struct(m, cs, node, inline[node.name], f"{path}.{node.name}", problems)


def _judge(m, cs, stub, text, phase=""):
    """The whole oracle for one generated stub; raises Violation, returns (declared names -> node)."""
    try:
        tree = ast.parse(stub)
    except SyntaxError as e:
        line = stub.splitlines()[e.lineno - 1] if e.lineno and e.lineno <= len(stub.splitlines()) else ""
        first = line.strip().split(":")[0].split("=")[0].strip()
        kind = "keyword-name" if keyword.iskeyword(first) or any(f" {k}:" in line or f"({k}:" in line or f", {k}:" in line for k in keyword.kwlist) else "other"
        raise Violation(f"stub-not-python:{kind}", f"{phase}SyntaxError line {e.lineno}: {line.strip()!r}\n--- definitions\n{text}\n--- stub\n{stub}", info={"line": line}) from None
    cls = [n for n in tree.body if isinstance(n, ast.ClassDef)]
    if len(cls) != 1:
        raise Violation("stub-shape", f"expected one class, found {[c.name for c in cls]}\n{stub}")
    body = cls[0].body
    declared = {}
    for node in body:
        if isinstance(node, ast.ClassDef):
            declared[node.name] = node
        elif isinstance(node, ast.AnnAssign) and isinstance(node.target, ast.Name):
            declared[node.target.id] = node
    base = m.cstruct()
    user_types = [n for n in cs.typedefs if n not in base.typedefs]
    user_consts = [n for n in cs.consts if n not in base.consts]
    problems = []
    for n in user_types + user_consts:
        if n not in declared:
            problems.append(f"{n!r} is defined on the cstruct object but not declared in the stub")
    for n in declared:
        got = lib(getattr, cs, n)
        if isinstance(got, Err):
            problems.append(f"stub declares {n!r}, which the cstruct object does not provide")
    for n in user_consts:
        node = declared.get(n)
        if node is None:
            continue
        val = cs.consts[n]
        ok = False
        if isinstance(node, ast.AnnAssign) and isinstance(node.annotation, ast.Subscript) and getattr(node.annotation.value, "id", None) == "Literal":
            try:
                lit = ast.literal_eval(node.annotation.slice)
                ok = lit == (int(val) if isinstance(val, int) and not isinstance(val, bool) else val)
            except Exception:  # noqa: BLE001 - not a literal
                ok = False
        if not ok:
            problems.append(f"constant {n!r} = {val!r} is declared as {ast.unparse(node)!r}")
    for n in user_types:
        node = declared.get(n)
        if node is None:
            continue
        T = lib(getattr, cs, n)  # as a user reaches it: an attribute of the cstruct object
        if isinstance(T, Err):
            problems.append(f"{n!r} is a name of the type table and declared in the stub, but cs.{n} raises {T}")
            continue
        if isinstance(node, ast.ClassDef):
            if issubclass(T, m.Structure):
                if node.name != T.__name__:
                    problems.append(f"class {node.name} declared for {T.__name__}")
                _check_struct(m, cs, node, T, n, problems)
            elif issubclass(T, (m.Enum, m.Flag)):
                members = [s.targets[0].id for s in node.body if isinstance(s, ast.Assign) and isinstance(s.targets[0], ast.Name)]
                if members != list(T.__members__):
                    problems.append(f"enum {n}: stub members {members}, actual {list(T.__members__)}")
        elif isinstance(node, ast.AnnAssign):
            # alias: X: TypeAlias = <target>
            tgt = node.value
            if isinstance(tgt, ast.Attribute) and isinstance(tgt.value, ast.Name) and tgt.value.id == "cstruct":
                got = lib(getattr, cs, tgt.attr)
                if isinstance(got, Err) or got is not T:
                    problems.append(f"alias {n}: stub says cstruct.{tgt.attr}, actual type {T.__name__}")
            elif isinstance(tgt, ast.Name) and tgt.id not in ("CharArray", "WcharArray"):
                got = lib(getattr, cs, tgt.id)
                if isinstance(got, Err) or got is not T:
                    problems.append(f"alias {n}: stub says {tgt.id}, actual type {T.__name__}")
            else:
                ok, why = _hint_matches(m, cs, tgt, T, {}, n) if tgt is not None else (False, "no target")
                if not ok:
                    problems.append(f"alias {n}: target {ast.unparse(node)!r} does not denote the actual type {T.__name__}: {why}")
    if problems:
        kind = "stub-mismatch"
        raise Violation(kind, f"{phase}{problems[:6]}\n--- definitions\n{text}\n--- stub\n{stub}", info={"problems": problems})
    return declared


def run_case(case, ctx):
    m = import_repo()
    from dissect.cstruct.tools import stubgen

    text = "".join(i["text"] for i in case["items"]) + "".join(f"#define {n} {v}\n" for n, v in case["consts"])
    cs = m.cstruct()
    r = lib(cs.load, text, compiled=case["compiled"])
    if isinstance(r, Err):
        raise Violation("definition-rejected", f"{r}\n{text}", r.where)
    for an, tgt in case.get("api_aliases", []):
        cs.add_type(an, tgt)
    stub = lib(stubgen.generate_cstruct_stub, cs)
    if isinstance(stub, Err):
        raise Violation("stubgen-raised", f"{stub}\n{text}", stub.where)
    declared = _judge(m, cs, stub, text)
    user_types = [n for n in cs.typedefs if n not in m.cstruct().typedefs]
    # the file-stub call form (another module prefix and class name) is the same stub up to those two names
    pstub = lib(stubgen.generate_cstruct_stub, cs, module_prefix="__cs__.", cls_name="_c_structure")
    if isinstance(pstub, Err):
        raise Violation("stubgen-raised", f"generate_cstruct_stub(module_prefix='__cs__.', cls_name='_c_structure'): {pstub}\n{text}", pstub.where)
    back = pstub.replace("__cs__.", "").replace("_c_structure.", "cstruct.").replace("class _c_structure(", "class cstruct(")
    if back != stub:
        import difflib

        diff = "\n".join(list(difflib.unified_diff(stub.splitlines(), back.splitlines(), lineterm="", n=0))[:12])
        raise Violation("stub-prefix-form-differs", f"the stub generated with module_prefix='__cs__.' / cls_name='_c_structure' is not the default stub with those names substituted:\n{diff}\n--- definitions\n{text}")
    # ... and in that form every name of the dissect.cstruct module is spelled with the module prefix, at every nesting depth
    # (the .pyi of the file form imports nothing but the module itself)
    import re as _re

    for nm in ("Array", "Pointer", "CharArray", "WcharArray", "Structure", "Union", "Enum", "Flag"):
        bare = [mm.start() for mm in _re.finditer(r"(?<![\w.])" + nm + r"\b", pstub)]
        if bare:
            line = pstub[: bare[0]].count("\n")
            raise Violation("stub-prefix-form-differs", f"with module_prefix='__cs__.' the stub names {nm!r} without the prefix: {pstub.splitlines()[line].strip()!r}\n--- definitions\n{text}")
    try:
        compile(stub, "stub", "exec")
    except SyntaxError as e:
        raise Violation("stub-not-python:other", f"compile(): {e}\n--- definitions\n{text}\n--- stub\n{stub}") from None
    # history: extend a structure through the public API, add an alias, generate again - the second stub must describe
    # the definitions as they are NOW (nothing about an earlier generation may survive)
    if not case.get("second_pass") and case.get("extend", True):
        structs = [n for n in user_types if isinstance(cs.resolve(n), type) and issubclass(cs.resolve(n), m.Structure) and not issubclass(cs.resolve(n), m.Union) and cs.resolve(n).__name__ == n]
        if structs:
            tgt = cs.resolve(structs[len(text) % len(structs)])
            r1 = lib(tgt.add_field, "extra_added_later", cs.uint32)
            if not isinstance(r1, Err):
                stub2 = lib(stubgen.generate_cstruct_stub, cs)
                if isinstance(stub2, Err):
                    raise Violation("stubgen-raised", f"second generation after add_field: {stub2}\n{text}", stub2.where)
                try:
                    tree2 = ast.parse(stub2)
                except SyntaxError as e:
                    raise Violation("stub-not-python:other", f"second generation after add_field: {e}\n{stub2}") from None
                cls2 = [n for n in tree2.body if isinstance(n, ast.ClassDef)][0]
                problems2 = []
                for node in cls2.body:
                    if isinstance(node, ast.ClassDef) and node.name == tgt.__name__:
                        _check_struct(m, cs, node, tgt, tgt.__name__, problems2)
                if problems2:
                    raise Violation("stub-stale-after-extension", f"after {tgt.__name__}.add_field('extra_added_later', uint32) the regenerated stub is wrong: {problems2[:4]}\n--- definitions\n{text}\n--- stub\n{stub2}")
                ctx.count("history:regenerated-after-add_field")
                # ... and after further definitions, constants and aliases were added: EVERYTHING is judged again
                more = f"#define LATER_CONST 7\ntypedef {tgt.__name__} later_t;\nenum LaterEnum : uint8 {{ LATER_A = 3 }};\n"
                r2 = lib(cs.load, more)
                r3 = lib(cs.add_type, "later_alias", tgt)
                if not isinstance(r2, Err) and not isinstance(r3, Err):
                    stub3 = lib(stubgen.generate_cstruct_stub, cs)
                    if isinstance(stub3, Err):
                        raise Violation("stubgen-raised", f"third generation after further loads: {stub3}\n{text}{more}", stub3.where)
                    try:
                        _judge(m, cs, stub3, text + more, phase="(generation after add_field, a later load() and add_type()) ")
                    except Violation as v3:
                        raise Violation("stub-stale-after-extension", v3.detail, v3.where, v3.info) from None
                    ctx.count("history:regenerated-after-further-definitions")
    kinds = {i["kind"] for i in case["items"]}
    for k in kinds:
        ctx.count("has:" + k)
    if case["consts"]:
        ctx.count("has:literal-constants")
    if case["keywords"]:
        ctx.count("class:keyword-field-names")
    if "class __anonymous" in stub:
        ctx.count("stub:inline-anonymous-class")
    aliasish = any(isinstance(v, ast.AnnAssign) and not isinstance(v.annotation, ast.Subscript) for v in declared.values())
    if len(kinds) >= 2 and ("class __anonymous" in stub or aliasish):
        ctx.mark_nontrivial(text)
        ctx.sample({"definitions": text, "stub_lines": len(stub.splitlines())}, "kw" if case["keywords"] else "std")


def base_cases():
    yield {"base_names": True, "compiled": False}
    yield {"base_names": True, "compiled": True}


def _run_base_names(case, ctx):
    """Every name of the built-in typedef table as a field type and as a typedef target, plus a custom type: each hint
    denotes the very type object the field has."""
    m = import_repo()
    from dissect.cstruct.tools import stubgen
    from dissect.cstruct.types import BaseType

    class MyType(BaseType):
        @classmethod
        def _read(cls, stream, context=None):
            return cls(stream.read(4))

        @classmethod
        def _write(cls, stream, data):
            return stream.write(bytes(4))

    cs = m.cstruct()
    cs.add_custom_type("my_t", MyType, 4, 4)
    names = [n for n in m.cstruct().typedefs]
    fields = "".join(f"    {n} f{i};\n" for i, n in enumerate(names))
    text = f"struct ALL {{\n{fields}    my_t custom; my_t carr[2]; my_t *cptr;\n}};\n" + "".join(f"typedef {n} A{i};\n" for i, n in enumerate(names)) + "typedef my_t other_t;\n"
    r = lib(cs.load, text, compiled=case["compiled"])
    if isinstance(r, Err):
        raise Violation("definition-rejected", f"{r}", r.where)
    # the longest chain of by-name aliases for which a stub can still be generated (the resolver follows a bounded number
    # of links): everything that stub declares is provided by the object, the deepest alias included
    depth = 0
    for d_ in range(2, 16):
        probe = m.cstruct()
        probe.load("typedef uint32 ref0;")
        for i in range(1, d_):
            probe.add_type(f"ref{i}", f"ref{i - 1}")
        if isinstance(lib(stubgen.generate_cstruct_stub, probe), Err):
            break
        depth = d_
    cs.load("typedef uint32 ref0;")
    for i in range(1, depth):
        cs.add_type(f"ref{i}", f"ref{i - 1}")
    text += "typedef uint32 ref0;\n" + "".join(f"(add_type ref{i} -> ref{i - 1})\n" for i in range(1, depth))
    stub = lib(stubgen.generate_cstruct_stub, cs)
    if isinstance(stub, Err):
        raise Violation("stubgen-raised", f"{stub}", stub.where)
    declared = _judge(m, cs, stub, text)
    ctx.count("base-names:alias-chain-depth", depth)
    node = declared.get("my_t")
    if not isinstance(node, ast.ClassDef) or lib(getattr, cs, node.name) is not cs.my_t:
        raise Violation("stub-mismatch", f"the custom type my_t is declared as {ast.unparse(node) if node is not None else None!r}\n{stub[:600]}")
    ctx.count("base-names", len(names))
    ctx.mark_nontrivial(case)
    ctx.sample({"names": len(names), "compiled": case["compiled"]}, "base-names")


_run_defs = run_case


def run_case(case, ctx):  # noqa: F811 - dispatch on the case kind
    if case.get("base_names"):
        return _run_base_names(case, ctx)
    return _run_defs(case, ctx)


def stages(tier):
    from pbt.drive import EnumStage

    q = tier == "quick"
    return [
        EnumStage("base-names", base_cases, shards=2, scope="every name of the built-in typedef table as field type and typedef target, plus a custom type"),
        HypStage("stubs", lambda: stub_case(False), examples=400 if q else 4000, shards=6 if q else 12),
        HypStage("keyword-names", lambda: stub_case(True), examples=150 if q else 1000, shards=2 if q else 4),
    ]


def _kf_keyword(case, v):
    return bool(case.get("keywords")) and v.kind == "stub-not-python:keyword-name"


KNOWN_PREDICATES = {"keyword-field-name": _kf_keyword}
