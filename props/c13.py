"""C13 — definition parsing ignores comments, spacing and order of unrelated definitions; aliases resolve."""
from __future__ import annotations

import io
import threading

from hypothesis import strategies as st

from pbt import defset, libside
from pbt.drive import Err, HarnessError, HypStage, Violation, import_repo, lib

ID = "C13"
RULE = (
    "cases: generated definition sets (3-8 items: #defines incl. expressions over earlier ones, enums/flags with member "
    "expressions, structs/unions with nested/anonymous members, bit-fields, pointers, self reference, arrays sized by "
    "constants/fields, typedefs incl. chains, array/pointer typedefs and several names after a struct typedef) rendered "
    "to text and tokenised ('#define' lines and 'name[...]' declarators atomic); edits: 1-8 insertions of trivia "
    "(blanks, tabs, newlines, /* */ comments single- and multi-line with keywords, braces, semicolons, quotes, '//' and "
    "'*' runs inside, // comments) at token boundaries, optionally CRLF line ends; dependency-respecting permutations of "
    "the items; splitting the text into several load() calls. Oracle: signature(edited) == signature(base), where the "
    "signature lists for every user-visible name its kind, the name of the type itself, size, alignment, fields (name, recursive type signature, bits, "
    "offset), enum members and values, constants, plus parse results on pattern inputs; up to four items are also loaded "
    "with nothing but their own dependencies and must have the signature they have inside the full set. Alias stage: typedef chains and "
    "multiple names are the very same type object, built-in synonyms too; re-declaring an alias is accepted for the same "
    "target only; unknown and cyclic aliases raise ResolveError within a watchdog. Non-trivial = >= 3 insertions incl. a "
    "comment, or a permutation that moves an item, or a multi-load split; distinct by (text, edit)."
)
ASSUMPTIONS = [
    "trivia is ADDED at a token boundary, never replacing the separating blank (the library deletes comments rather than substituting a space); no insertion inside array brackets or #define lines (the quantifier's stated exclusion)",
    "alias chains are bounded to depth 9 (the resolver documents a limit of 10)",
]


def _items(case):
    return [defset.Item(i["kind"], i["name"], i["text"], i["deps"], i["names"]) for i in case["items"]]


BOUNDARY_CLASSES = [
    ("after-star", lambda a, b: a == "*"),
    ("before-star", lambda a, b: b == "*" or b.startswith("*")),
    ("after-typedef", lambda a, b: a == "typedef"),
    ("after-struct-union-enum-flag", lambda a, b: a in ("struct", "union", "enum", "flag")),
    ("after-closing-brace", lambda a, b: a == "}"),
    ("before-semicolon", lambda a, b: b == ";"),
    ("around-comma", lambda a, b: a == "," or b == ","),
    ("around-colon", lambda a, b: a == ":" or b == ":"),
    ("around-equals", lambda a, b: a == "=" or b == "="),
    ("inside-braces-edge", lambda a, b: a == "{" or b == "}"),
    ("around-parenthesis", lambda a, b: a in "()" or b in "()"),
    ("after-define-line", lambda a, b: a.startswith("#define")),
    ("before-bracket", lambda a, b: b.startswith("[")),
]


@st.composite
def edit_case(draw, kind):
    items = draw(defset.defset())
    case = {"items": [i.to_json() for i in items], "edit": kind}
    for it, js in zip(items, case["items"]):
        if hasattr(it, "anon_members"):
            js["anon_members"] = it.anon_members
    if kind in ("trivia", "mixed"):
        # [position key, trivia index, syntactic class of the boundary (0 = any)]: stratified, so that every kind of
        # boundary (after '*', after 'typedef', before ';', around ':' '=' ',' braces, ...) is visited in most cases
        case["inserts"] = [[draw(st.integers(0, 10_000)), draw(st.integers(0, len(defset.TRIVIA) - 1)), draw(st.integers(0, len(BOUNDARY_CLASSES)))] for _ in range(draw(st.integers(1, 8)))]
        case["crlf"] = draw(st.integers(0, 5)) == 0
        case["compact"] = kind == "trivia" and draw(st.integers(0, 4)) == 0  # instead of adding trivia: remove every blank C does not need
    if kind in ("order", "mixed"):
        case["perm"] = [draw(st.integers(0, 1000)) for _ in items]
    if kind in ("split", "mixed"):
        case["cuts"] = sorted(set(draw(st.lists(st.integers(1, max(1, len(items) - 1)), max_size=3))))
    case["compiled"] = draw(st.booleans())
    case["align"] = draw(st.booleans())
    return case


def topo_order(items, keys):
    """Random dependency-respecting order driven by `keys` (one priority per item)."""
    order = []
    placed = set()
    remaining = list(range(len(items)))
    provides = {}
    for i, it in enumerate(items):
        for n in it.names + [it.name]:
            provides[n] = i
    while remaining:
        ready = [i for i in remaining if all(provides.get(d) in placed or provides.get(d) is None or provides.get(d) == i for d in items[i].deps)]
        if not ready:
            raise HarnessError("dependency cycle in generated definition set")
        ready.sort(key=lambda i: (keys[i], i))
        pick = ready[0]
        order.append(pick)
        placed.add(pick)
        remaining.remove(pick)
    return order


# ---------------------------------------------------------------- signature

def type_sig(m, t, seen=()):
    if isinstance(t, str):
        return ("unresolved", t)
    name = t.__name__
    if issubclass(t, m.Structure):
        if t in seen:
            return ("self", "struct")
        fields = []
        for f in t.__fields__:
            fields.append((f.name if f.name else "<anon>", type_sig(m, f.type, seen + (t,)), f.bits, f.offset))
        return ("union" if issubclass(t, m.Union) else "struct", name if "anonymous" not in name else "<anon>", t.size, t.alignment, tuple(fields),
                tuple(k if "anonymous" not in k else "<anon>" for k in t.fields))
    if issubclass(t, (m.Enum, m.Flag)):
        return ("flag" if issubclass(t, m.Flag) else "enum", name if "anonymous" not in name else "<anon>", t.type.__name__, tuple((k, int(v.value)) for k, v in t.__members__.items()))
    if issubclass(t, m.Pointer):
        return ("ptr", type_sig(m, t.type, seen))
    from dissect.cstruct.types.base import BaseArray

    if issubclass(t, BaseArray):
        n = t.num_entries
        n = ("expr", " ".join(str(n.expression).split())) if not isinstance(n, (int, type(None))) else n
        return ("array", type_sig(m, t.type, seen), n, t.null_terminated)
    return ("scalar", name if "anonymous" not in name else "<anon>", t.size)


PATTERN = bytes(((i * 37 + 3) % 251) % 6 if i % 5 == 0 else ((i * 11) % 127 + 1) | (0x80 if i % 3 == 0 else 0) for i in range(160)) + bytes(40)


def signature(m, cs, names, anon_consts):
    sig = {}
    for n in names:
        t = lib(cs.resolve, n)
        if isinstance(t, Err):
            sig[n] = ("resolve-error", t.type)
            continue
        sig[n] = type_sig(m, t)
        if issubclass(t, m.Structure):
            s = io.BytesIO(PATTERN)
            r = lib(t, s)
            sig[n + "@parse"] = ("raised", r.type) if isinstance(r, Err) else (repr(libside.cplain(r)), s.tell())
    base = m.cstruct()
    consts = {}
    for k, v in cs.consts.items():
        if k in base.consts:
            continue
        consts[k] = int(v) if isinstance(v, int) else repr(v)
    sig["#consts"] = tuple(sorted(consts.items()))
    return sig


def _load(m, texts, case):
    cs = m.cstruct()
    for t in texts:
        r = lib(cs.load, t, compiled=case["compiled"], align=case["align"])
        if isinstance(r, Err):
            return r
    return cs


def run_case(case, ctx):
    m = import_repo()
    if case.get("edit") == "aliases":
        return _run_aliases(case, ctx, m)
    items = _items(case)
    names = [n for it in items for n in it.names if it.kind != "define"]
    base_text = "".join(i.text for i in items)
    base = _load(m, [base_text], case)
    if isinstance(base, Err):
        raise Violation("definition-rejected", f"base text rejected: {base}\n{base_text}", base.where)
    bsig = signature(m, base, names, None)
    order = list(range(len(items)))
    moved = False
    if "perm" in case:
        order = topo_order(items, case["perm"])
        moved = order != list(range(len(items)))
    texts_items = [items[i].text for i in order]
    ins_count = 0
    has_comment = False
    if "inserts" in case:
        edited_items = []
        whole = "".join(texts_items)
        toks = defset.tokenize(whole)
        bounds = defset.allowed_boundaries(toks)
        inserts = {}
        for ins in case["inserts"]:
            pos, ti = ins[0], ins[1]
            cls = ins[2] if len(ins) > 2 else 0
            if not bounds:
                break
            pool = bounds
            if cls:
                pred = BOUNDARY_CLASSES[cls - 1][1]
                pool = [b_ for b_ in bounds if pred(toks[b_][0], toks[b_ + 1][0])] or bounds
                if pool is not bounds:
                    ctx.count("trivia-at:" + BOUNDARY_CLASSES[cls - 1][0])
            b = pool[pos % len(pool)]
            tr = defset.TRIVIA[ti]
            if tr.rstrip(" \t").endswith("*/") is False and "//" in tr and not tr.endswith("\n"):
                tr += "\n"
            inserts[b] = inserts.get(b, "") + tr
            ins_count += 1
            has_comment = has_comment or "/" in tr
        edited = defset.join(toks, inserts, crlf=case.get("crlf", False))
        if case.get("compact"):
            edited = defset.join_compact(toks)
            ctx.count("edit:compact(no optional blanks)")
        texts = [edited]
    else:
        texts = ["".join(texts_items)]
    cuts = case.get("cuts") or []
    if cuts and "inserts" not in case:
        parts = []
        prev = 0
        for c in cuts + [len(texts_items)]:
            if c > prev:
                parts.append("".join(texts_items[prev:c]))
            prev = c
        texts = parts
    edited_cs = _load(m, texts, case)
    what = {"edit": case["edit"], "order": order, "loads": len(texts), "crlf": case.get("crlf", False)}
    if isinstance(edited_cs, Err):
        raise Violation("edited-text-rejected", f"{what}: {edited_cs}\n--- base\n{base_text}\n--- edited\n{''.join(texts)}", edited_cs.where, {"crlf": case.get("crlf", False)})
    esig = signature(m, edited_cs, names, None)
    if esig != bsig:
        diff = [k for k in bsig if bsig[k] != esig.get(k)]
        k0 = diff[0]
        raise Violation(
            "signature-changed",
            f"{what}: {diff[:5]} differ; {k0}: base {bsig[k0]!r} vs edited {esig.get(k0)!r}\n--- base\n{base_text}\n--- edited\n{''.join(texts)!r}",
            info={"crlf": case.get("crlf", False), "keys": diff},
        )
    # isolation: an item loaded with nothing but its own dependencies has the signature it has in the full set
    if case["edit"] in ("order", "mixed") and items:
        provides = {}
        for i, it in enumerate(items):
            for n_ in it.names + [it.name]:
                provides[n_] = i
        first = (case.get("perm") or [0])[0] % len(items)
        for pick in [items[first]] + [it for j, it in enumerate(items) if j != first and it.kind in ("typedef_struct", "struct", "union")][:3]:
            need = set()
            todo = [provides[pick.name]]
            while todo:
                i = todo.pop()
                if i in need:
                    continue
                need.add(i)
                todo += [provides[d] for d in items[i].deps if d in provides]
            solo = _load(m, ["".join(items[i].text for i in sorted(need))], case)
            if isinstance(solo, Err):
                raise Violation("definition-rejected", f"item with its dependencies only rejected: {solo}\n{''.join(items[i].text for i in sorted(need))}", solo.where)
            pnames = [n_ for n_ in pick.names if pick.kind != "define"]
            ssig = signature(m, solo, pnames, None)
            for k_ in pnames + [n_ + "@parse" for n_ in pnames]:
                if k_ in ssig and ssig[k_] != bsig.get(k_):
                    raise Violation(
                        "unrelated-definitions-interfere",
                        f"{k_}: loaded with only its dependencies {ssig[k_]!r}, inside the full definition set {bsig.get(k_)!r}\n--- full\n{base_text}\n--- alone\n{''.join(items[i].text for i in sorted(need))}",
                    )
        ctx.count("isolation:checked")
    ctx.count("edit:" + case["edit"])
    if case.get("crlf"):
        ctx.count("edit:crlf")
    if moved:
        ctx.count("order:moved")
    if len(texts) > 1:
        ctx.count("loads:multi")
    kinds = {i.kind for i in items}
    for k in kinds:
        ctx.count("has:" + k)
    if (ins_count >= 3 and has_comment) or moved or len(texts) > 1:
        ctx.mark_nontrivial([base_text, case.get("inserts"), order, cuts, case.get("crlf")])
        ctx.sample({"base": base_text, "edited": texts if len(texts) > 1 else texts[0], **what}, case["edit"])


# ---------------------------------------------------------------- aliases

@st.composite
def alias_case(draw):
    depth = draw(st.integers(1, 9))
    base = draw(st.sampled_from(["uint32", "DWORD", "char", "wchar_t", "unsigned long long", "S"]))
    if base in ("DWORD", "wchar_t", "unsigned long long"):
        depth = min(depth, 8)  # the built-in synonym is itself one string hop; the resolver documents 10 lookups
    return {
        "edit": "aliases", "depth": depth, "base": base,
        "multi": draw(st.integers(1, 3)), "via": draw(st.sampled_from(["typedef", "add_type", "mixed"])),
        "redeclare_same": draw(st.booleans()), "cycle_len": draw(st.integers(1, 4)), "unknown": draw(st.sampled_from(["nosuch", "Uint32", "uint32 ", "struct"])),
    }


SYNONYMS = {"DWORD": "uint32", "QWORD": "uint64", "BYTE": "uint8", "WORD": "uint16", "unsigned int": "uint32", "long long": "int64", "wchar_t": "wchar", "uint8_t": "uint8", "__u32": "uint32", "_QWORD": "uint64", "u2": "uint16", "INT64": "int64", "UCHAR": "uint8", "unsigned __int16": "uint16"}


def _with_watchdog(fn, seconds=10.0):
    out = {}

    def run():
        out["r"] = lib(fn)

    th = threading.Thread(target=run, daemon=True)
    th.start()
    th.join(seconds)
    if th.is_alive():
        return "HANG"
    return out["r"]


def _run_aliases(case, ctx, m):
    cs = m.cstruct()
    cs.load("struct S { uint8 a; uint16 b; };")
    base = case["base"]
    target = cs.resolve(base)
    # chain of aliases
    prev = base
    names = []
    for i in range(case["depth"]):
        nm = f"A{i}"
        use_typedef = case["via"] == "typedef" or (case["via"] == "mixed" and i % 2 == 0)
        r = lib(cs.load, f"typedef {prev} {nm};\n") if use_typedef else lib(cs.add_type, nm, prev)
        if isinstance(r, Err):
            raise Violation("alias-rejected", f"declaring {nm} -> {prev} ({'typedef' if use_typedef else 'add_type'}): {r}", r.where)
        names.append(nm)
        prev = nm
    for nm in names:
        r = _with_watchdog(lambda nm=nm: cs.resolve(nm))
        if r == "HANG" or isinstance(r, Err) or r is not target:
            raise Violation("alias-not-same-type", f"resolve({nm!r}) (chain depth {names.index(nm) + 1} to {base!r}) gives {r!r}, expected the very type {target!r}")
        if getattr(cs, nm) is not target:
            raise Violation("alias-not-same-type", f"cs.{nm} is not cs.resolve({base!r})")
    # several names after a struct typedef
    extra = [f"M{i}" for i in range(case["multi"])]
    r = lib(cs.load, f"typedef struct _tagM {{ uint8 q; }} {', '.join(['M'] + extra)};\n")
    if isinstance(r, Err):
        raise Violation("alias-rejected", f"typedef struct with {1 + len(extra)} names: {r}", r.where)
    for nm in extra + ["_tagM"]:
        if cs.resolve(nm) is not cs.resolve("M"):
            raise Violation("alias-not-same-type", f"name {nm!r} of a multi-name struct typedef is a different type than 'M'")
    for syn, canon in SYNONYMS.items():
        if cs.resolve(syn) is not cs.resolve(canon):
            raise Violation("alias-not-same-type", f"built-in synonym {syn!r} is not {canon!r}")
    # re-declaration
    if case["redeclare_same"]:
        r = lib(cs.add_type, names[0], base)
        r2 = lib(cs.load, f"typedef {base} {names[0]};\n")
        if isinstance(r, Err) or isinstance(r2, Err):
            raise Violation("same-target-redeclaration-rejected", f"re-declaring {names[0]} for the same target {base!r}: add_type {r!r}, typedef {r2!r}")
    other = "uint8" if target is not cs.resolve("uint8") else "uint16"
    r = lib(cs.add_type, names[0], other)
    if not isinstance(r, Err):
        raise Violation("different-target-redeclaration-accepted", f"add_type({names[0]!r}, {other!r}) was accepted although {names[0]} is {base!r}")
    r = lib(cs.load, f"typedef {other} {names[-1]};\n")
    if not isinstance(r, Err):
        raise Violation("different-target-redeclaration-accepted", f"typedef {other} {names[-1]}; was accepted although {names[-1]} is {base!r}")
    if cs.resolve(names[0]) is not target or cs.resolve(names[-1]) is not target:
        raise Violation("alias-rebound", f"a refused re-declaration changed what {names[0]}/{names[-1]} resolve to")
    # unknown
    r = _with_watchdog(lambda: cs.resolve(case["unknown"]))
    if not (isinstance(r, Err) and r.type == "ResolveError"):
        raise Violation("unknown-alias", f"resolve({case['unknown']!r}) gave {r!r} instead of ResolveError")
    r = lib(cs.load, f"struct U1 {{ {case['unknown'].strip() or 'nosuch'}x f; }};\n")
    if not (isinstance(r, Err) and r.type == "ResolveError"):
        raise Violation("unknown-alias", f"a field of unknown type gave {r!r} instead of ResolveError")
    # cycles of string aliases
    cyc = [f"C{i}" for i in range(case["cycle_len"])]
    for i, nm in enumerate(cyc):
        cs.typedefs[nm] = cyc[(i + 1) % len(cyc)]
    r = _with_watchdog(lambda: cs.resolve(cyc[0]))
    if r == "HANG" or not (isinstance(r, Err) and r.type == "ResolveError"):
        raise Violation("cyclic-alias", f"resolve of a {len(cyc)}-cycle of aliases gave {r!r} instead of ResolveError")
    # ... reached from a tail (R1 -> R0 -> C0 -> C1 -> ... -> C0), and aliases of an unknown name (D1 -> D0 -> nosuch):
    # every way of referring to them is a resolve error
    cs.typedefs["R0"] = cyc[0]
    cs.typedefs["R1"] = "R0"
    cs.typedefs["D0"] = "nosuch_type"
    cs.typedefs["D1"] = "D0"
    for bad in ("R1", "R0", "D1", "D0", cyc[-1]):
        forms = (
            ("resolve", lambda bad=bad: cs.resolve(bad)), ("attribute", lambda bad=bad: getattr(cs, bad)), ("typedef", lambda bad=bad: cs.load(f"typedef {bad} Z_{bad};\n")),
            ("field", lambda bad=bad: cs.load(f"struct X_{bad} {{ {bad} f; }};\n")), ("array-field", lambda bad=bad: cs.load(f"struct Y_{bad} {{ {bad} f[2]; }};\n")),
            ("enum-base", lambda bad=bad: cs.load(f"enum E_{bad} : {bad} {{ EA_{bad} = 1 }};\n")), ("read", lambda bad=bad: cs.read(bad, b"\x00" * 8)),
        )
        for form, call in forms:
            r = _with_watchdog(call)
            if r == "HANG" or not (isinstance(r, Err) and r.type == "ResolveError"):
                raise Violation("cyclic-alias" if bad[0] in "RC" else "unknown-alias", f"reference to {bad!r} (alias chain ending in {'a cycle' if bad[0] in 'RC' else 'an unknown name'}) through {form}: {r!r} instead of ResolveError")
    for nm in ("R0", "R1", "D0", "D1", *cyc):
        cs.typedefs.pop(nm, None)
    # an alias name re-used by a definition of another type is refused; the same target through another spelling is accepted
    a0 = names[0]
    diff = [f"enum {a0} {{ RX = 1 }};", f"flag {a0} {{ RY = 1 }};", f"struct {a0} {{ uint8 zz; uint8 yy; uint8 xx; }};", f"union {a0} {{ uint8 zz; uint64 yy; }};",
            f"typedef struct {{ uint8 zz; uint8 yy; uint8 xx; }} {a0};", f"typedef struct _t9 {{ uint8 zz; uint8 yy; uint8 xx; }} T9, {a0};", f"struct S9 {{ uint8 zz; uint8 yy; uint8 xx; }} {a0};", "enum DWORD { RZ = 1 };"]
    if case["depth"] >= 1 and base != "S":
        for text in diff:
            r = lib(cs.load, text + "\n")
            if not isinstance(r, Err):
                raise Violation("different-target-redeclaration-accepted", f"{text!r} was accepted although {a0 if 'DWORD' not in text else 'DWORD'} already names {base if 'DWORD' not in text else 'uint32'!r}")
        if cs.resolve(a0) is not target or cs.resolve("DWORD") is not cs.resolve("uint32"):
            raise Violation("alias-rebound", f"a refused re-declaration changed what {a0} / DWORD resolve to")
        same = [f"typedef {names[-1]} {a0};", f"typedef {a0} {names[-1]};"]
        for text in same:
            r = lib(cs.load, text + "\n")
            if isinstance(r, Err):
                raise Violation("same-target-redeclaration-rejected", f"{text!r} (both names already mean {base!r}): {r}", r.where)
        if cs.resolve(a0) is not target or cs.resolve(names[-1]) is not target:
            raise Violation("alias-rebound", f"an accepted same-target re-declaration changed what {a0}/{names[-1]} resolve to")
        ctx.count("aliases:redeclared-by-definition")
    # derived targets (pointer, array): the same declaration again is the same target, another one is not
    for decl, other_decl in (("typedef {b} *PT9;", "typedef {o} *PT9;"), ("typedef {b} AT9[3];", "typedef {b} AT9[4];"), ("typedef {b} *PA9[2];", "typedef {b} **PA9[2];"), ("typedef char ST9[];", "typedef wchar ST9[];"),
                             # arrays without a fixed byte size: the count is part of the target all the same
                             ("typedef {b} DN9[n9];", "typedef {b} DN9[m9];"), ("typedef uleb128 LB9[2];", "typedef uleb128 LB9[3];"), ("typedef {b} MD9[2][k9];", "typedef {b} MD9[3][k9];"),
                             ("typedef {b} EO9[EOF];", "typedef {b} EO9[];"), ("typedef {b} NT9[];", "typedef {b} NT9[n9];"), ("typedef {b} ZL9[0];", "typedef {b} ZL9[1];"), ("typedef void VD9[2];", "typedef void VD9[3];")):
        bname = base if base != "S" else "S"
        first = lib(cs.load, decl.format(b=bname, o=other) + "\n")
        if isinstance(first, Err):
            raise Violation("alias-rejected", f"{decl.format(b=bname, o=other)!r}: {first}", first.where)
        again = lib(cs.load, decl.format(b=bname, o=other) + "\n")
        if isinstance(again, Err):
            raise Violation("same-target-redeclaration-rejected", f"{decl.format(b=bname, o=other)!r} loaded a second time: {again}", again.where)
        diff_ = lib(cs.load, other_decl.format(b=bname, o=other) + "\n")
        if not isinstance(diff_, Err):
            raise Violation("different-target-redeclaration-accepted", f"{other_decl.format(b=bname, o=other)!r} was accepted after {decl.format(b=bname, o=other)!r}")
    # an alias registered by NAME follows its target: after the target is deliberately re-pointed (replace=True), every alias
    # in the chain -- used before or not -- resolves to what the target now is
    lib(cs.add_type, "RP0", "uint16")
    for i in range(1, 1 + max(1, case["depth"] % 4)):
        lib(cs.add_type, f"RP{i}", f"RP{i - 1}")
    last = f"RP{max(1, case['depth'] % 4)}"
    used_first = case["multi"] % 2 == 0
    if used_first:
        first = _with_watchdog(lambda: (cs.resolve(last), getattr(cs, last), cs.read(last, b"\x01\x02\x03\x04")))
        if first == "HANG" or isinstance(first, Err) or first[0] is not cs.uint16 or first[2] != 0x0201:
            raise Violation("alias-not-same-type", f"{last} -> ... -> RP0 -> uint16 resolves to {first!r}")
    r = lib(cs.add_type, "RP0", "uint32", replace=True)
    if isinstance(r, Err):
        raise Violation("alias-rejected", f"add_type('RP0', 'uint32', replace=True): {r}", r.where)
    for nm in ["RP0", last]:
        got = _with_watchdog(lambda nm=nm: (cs.resolve(nm), getattr(cs, nm), cs.read(nm, b"\x01\x02\x03\x04")))
        if got == "HANG" or isinstance(got, Err) or got[0] is not cs.uint32 or got[1] is not cs.uint32 or got[2] != 0x04030201:
            raise Violation("alias-not-same-type", f"after RP0 was re-pointed to uint32 (replace=True), {nm} ({'resolved before' if used_first else 'never resolved before'}; chain {last} -> ... -> RP0) gives {got!r}, expected the very type uint32")
    ctx.count("aliases:target-re-pointed:" + ("alias-used-before" if used_first else "alias-not-used-before"))
    ctx.count(f"aliases:depth:{case['depth']}")
    ctx.count("aliases:via:" + case["via"])
    ctx.mark_nontrivial(case)
    ctx.sample(case, "aliases")


BODIES = ["uint8 a;", "uint16 a; uint8 b;", "uint32 a;", "char a[3];", "uint8 a; uint8 b; uint8 c; uint8 d; uint8 e;", "int64 a;", "uint16 a : 4; uint16 b : 12;", "uint24 a; uint24 b;"]


@st.composite
def collision_case(draw):
    """Unrelated structures that happen to use the same tag / element type names and array counts."""
    n = draw(st.integers(1, 3))
    b1, b2 = draw(st.sampled_from(BODIES)), draw(st.sampled_from(BODIES))
    kind = draw(st.sampled_from(["tag", "tag", "u48", "anon-vs-tag", "const-vs-member"]))
    if kind == "const-vs-member":
        # an unrelated constant spelled like a member of a named enum whose later members refer to it
        k9 = draw(st.integers(0, 200))
        base = draw(st.sampled_from(["enum", "flag"]))
        t1 = f"{base} E1 : uint16 {{ FIRST = 1, SECOND = FIRST + 1, THIRD = FIRST << 2, LAST = THIRD | SECOND }};\nstruct S1 {{ E1 e[{n}]; uint8 z; }};\n"
        t2 = draw(st.sampled_from([f"#define FIRST {k9}\n", f"enum {{ FIRST = {k9}, OTHER }};\n", f"#define THIRD {k9}\n#define K8 (THIRD + 1)\n"]))
        items = [{"kind": "enum", "name": "E1", "text": t1, "deps": [], "names": ["E1", "S1"]}, {"kind": "define", "name": "FIRST", "text": t2, "deps": [], "names": ["FIRST"]}]
        return {"items": items, "edit": "order", "perm": [draw(st.integers(0, 5)) for _ in items], "compiled": draw(st.booleans()), "align": draw(st.booleans())}
    if kind == "tag":
        t1 = f"struct S1 {{ uint8 pre; struct item {{ {b1} }} items[{n}]; }};\n"
        t2 = f"struct S2 {{ struct item {{ {b2} }} items[{n}]; uint16 post; }};\n"
    elif kind == "u48":
        t1 = f"struct S1 {{ int48 v[{n}]; uint8 z; }};\n"
        t2 = f"struct S2 {{ uint48 v[{n}]; uint8 z; }};\n"
    else:
        t1 = f"struct S1 {{ struct item {{ {b1} }} one; struct item2 {{ {b1} }} two[{n}]; }};\n"
        t2 = f"union S2 {{ struct item {{ {b2} }} one[{n}]; struct item2 {{ {b2} }} two[{n}]; }};\n"
    items = [{"kind": "struct", "name": "S1", "text": t1, "deps": [], "names": ["S1"]}, {"kind": "struct", "name": "S2", "text": t2, "deps": [], "names": ["S2"]}]
    if draw(st.booleans()):
        items.insert(1, {"kind": "define", "name": "K9", "text": "#define K9 1\n", "deps": [], "names": ["K9"]})
    return {"items": items, "edit": "order", "perm": [draw(st.integers(0, 5)) for _ in items], "compiled": draw(st.booleans()), "align": draw(st.booleans())}


def stages(tier):
    q = tier == "quick"
    return [
        HypStage("collisions", collision_case, examples=150 if q else 1500, shards=1 if q else 2),
        HypStage("trivia", lambda: edit_case("trivia"), examples=300 if q else 4000, shards=5 if q else 8),
        HypStage("order", lambda: edit_case("order"), examples=150 if q else 2000, shards=2 if q else 4),
        HypStage("split", lambda: edit_case("split"), examples=150 if q else 2000, shards=2 if q else 4),
        HypStage("mixed", lambda: edit_case("mixed"), examples=150 if q else 2000, shards=2 if q else 4),
        HypStage("aliases", alias_case, examples=150 if q else 1500, shards=1 if q else 2),
    ]
