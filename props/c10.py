"""C10 — expressions evaluate with C precedence and associativity, repeatably."""
from __future__ import annotations

import itertools

from hypothesis import strategies as st

from pbt import exprref as X
from pbt.drive import EnumStage, Err, FuncStage, HarnessError, HypStage, Violation, import_repo, lib

ID = "C10"
RULE = (
    "cases: (a) Hypothesis ASTs over dec/hex/octal/binary literals with u/l suffixes, identifiers, unary - ~, the ten "
    "binary operators, redundant parentheses and sizeof, rendered with minimal parentheses from an independent "
    "precedence table and random spacing, evaluated through one Expression object along a generated history of "
    "contexts (incl. unbound-identifier failures); (b) exhaustive token sequences with <=2 (quick) / <=3 (thorough) "
    "binary operators; (c) the same expressions reached through callers (array length, enum value, #define). "
    "Oracle: Python integer evaluation of the AST / an independent precedence-climbing parser. Non-trivial = at least "
    "two binary operators of different precedence, or a unary operator as right operand of a binary one, or a "
    "re-evaluation under a different context; distinct by (text, contexts)."
)
ASSUMPTIONS = [
    "domain per DESIGN §3.7: / and % only on non-negative left and positive right operands, shift counts in [0,128]; "
    "out-of-domain cases are repaired by construction (Hypothesis) or skipped and counted (enumeration)",
    "sizeof takes a single-identifier built-in type name",
    "Python unbounded integers are the reference for 'unbounded integers'",
]

IDENT_POOL = ["A", "B", "n", "x", "b", "l", "_a1", "len", "X9", "ul", "u"]


def _cs():
    m = import_repo()
    return m


# ---------------------------------------------------------------- strategies

@st.composite
def literal(draw):
    v = draw(st.one_of(st.integers(0, 9), st.integers(0, 300), st.sampled_from([0, 1, 2, 7, 8, 15, 16, 255, 256, 0xFFFF, 2**31, 2**32 - 1, 2**64])))
    base = draw(st.sampled_from(["d", "d", "x", "X", "o", "b", "B"]))
    if base == "d":
        s = str(v)
    elif base == "x":
        s = "0x" + draw(st.sampled_from(["%x", "%X"])) % v
    elif base == "X":
        s = "0X%x" % v
    elif base == "o":
        s = "0" + ("%o" % v if v else "")
    elif base == "b":
        s = "0b" + bin(v)[2:]
    else:
        s = "0B" + bin(v)[2:]
    suf = draw(st.sampled_from(["", "", "", "u", "U", "l", "L", "ul", "UL", "ull", "ULL", "ll", "LL", "lu", "llu", "Ul", "lU"]))
    return ["lit", v, s + suf]


@st.composite
def expr_ast(draw, depth, idents, env):
    """Constructive: sub-expressions are evaluated by the reference while building; an operator whose operands
    fall outside the domain is replaced by a total one (counted via the 'repaired' marker)."""
    if depth <= 0 or draw(st.integers(0, 9)) < 2:
        k = draw(st.integers(0, 9))
        if k < 5 or not idents:
            return draw(literal())
        if k < 9:
            return ["id", draw(st.sampled_from(idents))]
        return ["sizeof", draw(st.sampled_from(sorted(X.SIZEOF_TYPES)))]
    k = draw(st.integers(0, 9))
    if k < 2:
        return ["un", draw(st.sampled_from(X.UN_OPS)), draw(expr_ast(depth - 1, idents, env))]
    if k < 3:
        return ["par", draw(expr_ast(depth - 1, idents, env))]
    op = draw(st.sampled_from(X.BIN_OPS))
    l = draw(expr_ast(depth - 1, idents, env))
    r = draw(expr_ast(depth - 1, idents, env))
    node = ["bin", op, l, r]
    for ctx in env["contexts"]:
        try:
            X.evaluate(node, ctx, env["consts"])
        except X.OutOfDomain:
            node = ["bin", draw(st.sampled_from(["+", "-", "*", "&", "^", "|"])), l, r]
            env["repaired"] = env.get("repaired", 0) + 1
            break
    return node


GAPS = ["", "", " ", " ", "  ", "\t"]


@st.composite
def ast_case(draw):
    idents = draw(st.lists(st.sampled_from(IDENT_POOL), max_size=4, unique=True))
    nctx = draw(st.integers(1, 3))
    vals = st.one_of(st.integers(0, 20), st.integers(-5, 300), st.sampled_from([0, 1, 255, 65535, 2**32, -1]))
    consts = {}
    contexts = [dict() for _ in range(nctx)]
    for n in idents:
        where = draw(st.sampled_from(["ctx", "ctx", "const", "both"]))
        if where in ("const", "both"):
            consts[n] = draw(vals)
        if where == "ctx":
            for c in contexts:
                c[n] = draw(vals)
        elif where == "both":
            # present in some contexts only: elsewhere the constant is the fallback
            for c in contexts:
                if draw(st.booleans()):
                    c[n] = draw(vals)
    env = {"contexts": contexts, "consts": consts}
    ast = draw(expr_ast(draw(st.integers(1, 4)), idents, env))
    toks = X.tokens_of(ast)
    gaps = draw(st.lists(st.sampled_from(GAPS), min_size=len(toks), max_size=len(toks)))
    text = X.join_tokens(toks, gaps)
    # history: indices into contexts, or -1 = evaluation with an identifier left unbound (expected to fail)
    hist = draw(st.lists(st.integers(-1, nctx - 1), min_size=1, max_size=5))
    # constants may be redefined between two evaluations of the same object (only to values keeping the case in domain)
    updates = []
    cur = dict(consts)
    for _ in hist:
        upd = {}
        if consts and draw(st.integers(0, 3)) == 0:
            n = draw(st.sampled_from(sorted(consts)))
            v = draw(vals)
            trial = dict(cur)
            trial[n] = v
            ok = True
            for c in contexts:
                try:
                    X.evaluate(ast, c, trial)
                except X.OutOfDomain:
                    ok = False
            if ok:
                upd[n] = v
                cur = trial
        updates.append(upd)
    return {"ast": ast, "text": text, "contexts": contexts, "consts": consts, "history": hist, "const_updates": updates, "repaired": env.get("repaired", 0)}


@st.composite
def caller_case(draw):
    """The same language reached through its callers: array length, enum member value, #define."""
    idents = ["a", "b"]
    ctx = {"a": draw(st.integers(0, 6)), "b": draw(st.integers(0, 6))}
    consts = {"K": draw(st.one_of(st.integers(0, 5), st.sampled_from([8, 9, 10, 16, 64]))), "M": draw(st.one_of(st.integers(1, 4), st.sampled_from([8, 10, 12])))}
    env = {"contexts": [ctx], "consts": consts}
    ast = draw(expr_ast(draw(st.integers(1, 3)), idents + ["K", "M"], env))
    toks = X.tokens_of(ast)
    gaps = draw(st.lists(st.sampled_from(["", " ", " ", "\t"]), min_size=len(toks), max_size=len(toks)))
    text = X.join_tokens(toks, gaps)
    more = [{"a": draw(st.integers(0, 6)), "b": draw(st.integers(0, 6))} for _ in range(draw(st.integers(0, 3)))]
    return {"ast": ast, "text": text, "ctx": ctx, "consts": consts, "compiled": draw(st.booleans()), "via": draw(st.sampled_from(["array", "enum", "define"])),
            "more": more, "shadow": [draw(st.integers(0, 9)), draw(st.integers(0, 9))], "defines_after": draw(st.booleans()),
            "const_spelling": {k_: draw(st.sampled_from(["dec", "dec", "hex", "oct", "bin", "oct-u", "paren-oct"])) for k_ in consts},
            # the fields the count refers to are plain integers, or enum / flag values (integers with a class of their own)
            "field_kinds": [draw(st.sampled_from(["uint8", "uint8", "EA", "FA"])), draw(st.sampled_from(["uint8", "uint8", "EA", "FA"]))]}


# ---------------------------------------------------------------- enumeration

ATOMS = ["1", "2", "3", "5", "A", "0x4"]
PREFIXES = ["", "-", "~"]
ENUM_CONSTS = {"A": 7}


def _shapes(n):
    """All full parenthesisations (binary tree shapes) of n operands, as functions of operand/operator lists."""
    if n == 1:
        return [lambda xs, ops: xs[0]]
    out = []
    for i in range(1, n):
        for lf in _shapes(i):
            for rf in _shapes(n - i):
                def f(xs, ops, i=i, lf=lf, rf=rf):
                    return "(" + lf(xs[:i], ops[: i - 1]) + " " + ops[i - 1] + " " + rf(xs[i:], ops[i:]) + ")"

                out.append(f)
    return out


def enum_cases(max_ops, atoms, prefixes):
    def gen():
        for nops in range(1, max_ops + 1):
            shapes = _shapes(nops + 1)
            for ops in itertools.product(X.BIN_OPS, repeat=nops):
                for xs in itertools.product(atoms, repeat=nops + 1):
                    for pf in itertools.product(prefixes, repeat=nops + 1):
                        operands = [p + x for p, x in zip(pf, xs)]
                        flat_sp = operands[0]
                        flat_ns = operands[0]
                        for o, x in zip(ops, operands[1:]):
                            flat_sp += " " + o + " " + x
                            flat_ns += o + (" " if o == "-" and x.startswith("-") else "") + x
                        texts = [flat_sp, flat_ns] + [s(operands, list(ops)) for s in shapes]
                        yield {"texts": texts}

    return gen


# ---------------------------------------------------------------- oracle

def _expect(ast, ctx, consts):
    try:
        return ("val", X.evaluate(ast, ctx, consts))
    except X.Unbound as e:
        return ("unbound", str(e))
    except X.OutOfDomain:
        return ("ood", None)


def run_case(case, ctx):
    stage = case.get("stage", "ast")
    m = _cs()
    if stage.startswith("enum"):
        return _run_enum(case, ctx, m)
    if stage == "callers":
        return _run_callers(case, ctx, m)
    return _run_ast(case, ctx, m)


def _run_ast(case, ctx, m):
    ast, text = case["ast"], case["text"]
    # harness self-consistency: the rendered text parses (independently) back to the same tree
    back = X.parse(text)
    if X.strip_par(back) != X.strip_par(ast):
        raise HarnessError(f"renderer/parser mismatch for {text!r}")
    consts = case["consts"]
    cs = m.cstruct()
    cs.consts.update(consts)
    shared = lib(m.Expression, cs, text)
    if isinstance(shared, Err):
        raise Violation("well-formed-rejected", f"Expression({text!r}) raised {shared}", shared.where)
    feats = X.features(ast)
    idents = sorted(feats["ids"])
    prev_ctx = None
    differing = False
    consts = dict(consts)
    for step, ci in enumerate(case["history"]):
        upd = (case.get("const_updates") or [{}] * len(case["history"]))[step]
        if upd:
            consts.update(upd)
            cs.consts.update(upd)
            ctx.count("history:constant-redefined-between-evaluations")
        if ci < 0:
            if not idents:
                continue
            # leave the first identifier unbound everywhere
            drop = idents[0]
            c = {k: v for k, v in case["contexts"][0].items() if k != drop}
            cs2 = m.cstruct()
            cs2.consts.update({k: v for k, v in consts.items() if k != drop})
            # the shared object is bound to cs; use a context-only evaluation when the name lives in consts
            if drop in consts or drop not in case["contexts"][0]:
                continue
            got = lib(shared.evaluate, c)
            if not isinstance(got, Err):
                raise Violation("unbound-identifier-returned-value", f"{text!r} with {drop} unbound returned {got}")
            ctx.count("history:failing-evaluation")
            continue
        c = case["contexts"][ci]
        kind, want = _expect(ast, c, consts)
        if kind != "val":
            raise HarnessError(f"generator produced out-of-domain case {text!r} {c} {kind}")
        got = lib(shared.evaluate, dict(c))
        fresh = lib(lambda: m.Expression(cs, text).evaluate(dict(c)))
        if isinstance(got, Err):
            raise Violation("evaluate-raised", f"{text!r} ctx={c} consts={consts}: {got} (expected {want}, step {step})", got.where)
        if got != want:
            raise Violation("wrong-value", f"{text!r} ctx={c} consts={consts}: got {got}, C value {want} (step {step}, fresh object gives {fresh})")
        if isinstance(fresh, Err) or fresh != got:
            raise Violation("re-evaluation-differs", f"{text!r} ctx={c}: shared object {got}, fresh object {fresh} (step {step})")
        if prev_ctx is not None and prev_ctx != c:
            differing = True
        prev_ctx = c
    nontriv = len(feats["precs"]) >= 2 or feats["un_after_bin"] or differing
    ctx.count("ast:cases")
    if len(feats["precs"]) >= 2:
        ctx.count("ast:mixed-precedence")
    if feats["un_after_bin"]:
        ctx.count("ast:unary-after-binary")
    if differing:
        ctx.count("ast:re-eval-different-context")
    if feats["sizeof"]:
        ctx.count("ast:sizeof")
    if case.get("repaired"):
        ctx.count("ast:domain-repaired")
    if any(n in consts and n in case["contexts"][0] for n in idents):
        ctx.count("ast:name-in-context-and-constants")
    if nontriv:
        ctx.mark_nontrivial([text, case["contexts"], case["history"]])
        ctx.sample({"text": text, "contexts": case["contexts"], "consts": consts, "history": case["history"]}, "ast")


def _run_enum(case, ctx, m):
    consts = case.get("consts", ENUM_CONSTS)
    context = case.get("ctx", {})
    cs = m.cstruct()
    cs.consts.update(consts)
    ctx.evaluations += len(case["texts"]) - 1
    for text in case["texts"]:
        ast = X.parse(text)
        kind, want = _expect(ast, context, consts)
        if kind == "unbound":
            continue
        if kind == "ood":
            ctx.count("enum:out-of-domain-skipped")
            continue
        e = lib(m.Expression, cs, text)
        if isinstance(e, Err):
            raise Violation("well-formed-rejected", f"Expression({text!r}) raised {e}", e.where)
        got = lib(e.evaluate, dict(context))
        if isinstance(got, Err):
            raise Violation("evaluate-raised", f"{text!r}: {got} (expected {want})", got.where)
        if got != want:
            raise Violation("wrong-value", f"{text!r}: got {got}, C value {want}")
        again = lib(e.evaluate, dict(context))
        if isinstance(again, Err) or again != want:
            raise Violation("re-evaluation-differs", f"{text!r}: second evaluation gives {again}, first {got}")
        ctx.count("enum:evaluated")
        f = X.features(ast)
        if len(f["precs"]) >= 2 or f["un_after_bin"]:
            ctx.mark_nontrivial(text)
            ctx.sample({"text": text, "value": want}, "enum")


def _run_callers(case, ctx, m):
    ast, text = case["ast"], case["text"]
    consts, c = case["consts"], case["ctx"]
    via = case["via"]
    cs = m.cstruct()
    def spell(k_, v_):
        how = (case.get("const_spelling") or {}).get(k_, "dec")
        return {"dec": str(v_), "hex": hex(v_), "oct": "0" + oct(v_)[2:] if v_ else "0", "bin": bin(v_), "oct-u": ("0" + oct(v_)[2:] if v_ else "0") + "u", "paren-oct": "(0" + oct(v_)[2:] + ")" if v_ else "(0)"}[how]

    defs = "".join(f"#define {k} {spell(k, v)}\n" for k, v in consts.items())
    for k_, v_ in consts.items():
        ctx.count("callers:constant-spelled:" + (case.get("const_spelling") or {}).get(k_, "dec"))
    if via == "array":
        kind, want = _expect(ast, c, consts)
        if kind != "val":
            raise HarnessError("callers generator out of domain")
        n = max(0, want)
        if want < 0 and not (X.features(ast)["ids"] & {"a", "b"}):
            # a negative *constant* array bound is not a valid declaration (folded at load time); outside the domain
            ctx.count("callers:negative-constant-bound-skipped")
            return
        if n > 4096:
            ctx.count("callers:too-long-skipped")
            return
        uses_fields = bool(X.features(ast)["ids"] & {"a", "b"})
        fk = case.get("field_kinds") or ["uint8", "uint8"]
        sdef = "enum EA : uint8 { EA_X = 1, EA_Y = 2 };\nflag FA : uint8 { FA_R = 1, FA_W = 2, FA_X = 4 };\n" + f"struct T {{ {fk[0]} a; {fk[1]} b; uint8 arr[{text}]; uint8 tail; }};"
        if uses_fields:
            ctx.count("callers:array:count-over-fields-typed:" + "+".join(sorted(set(fk))))
        # constants may also be defined AFTER the structure that uses them, when the count depends on a field anyway
        after = bool(case.get("defines_after")) and uses_fields
        r = lib(cs.load, (sdef + "\n" + defs) if after else (defs + sdef), compiled=case["compiled"])
        if isinstance(r, Err):
            raise Violation("well-formed-rejected", f"array length [{text}] rejected at load: {r}", r.where)
        data = bytes([c["a"], c["b"]]) + bytes((i * 7 + 1) & 0xFF for i in range(n)) + b"\xEE"
        obj = lib(cs.T, data)
        if isinstance(obj, Err):
            raise Violation("evaluate-raised", f"arr[{text}] a={c['a']} b={c['b']} consts={consts}: {obj} (expected {n} elements)", obj.where)
        if len(obj.arr) != n or obj.tail != 0xEE:
            raise Violation("wrong-value", f"arr[{text}] a={c['a']} b={c['b']} consts={consts}: {len(obj.arr)} elements, expected max(0,{want})")
        # the same loaded type read again with other field values, back to the first ones, and after constants named
        # like the fields were defined: the count is evaluated per read, the fields just read come first
        seq = list(case.get("more") or []) + [c]
        shadowed = False
        for idx, c2 in enumerate(seq):
            if idx == len(seq) - 1 and uses_fields and case.get("shadow"):
                r = lib(cs.load, f"#define a {case['shadow'][0]}\n#define b {case['shadow'][1]}\n")
                shadowed = not isinstance(r, Err)
            k2, w2 = _expect(ast, c2, consts)
            if k2 != "val" or max(0, w2) > 4096:
                continue
            n2 = max(0, w2)
            d2 = bytes([c2["a"], c2["b"]]) + bytes((i * 5 + 3) & 0xFF for i in range(n2)) + b"\xEE"
            o2 = lib(cs.T, d2)
            if isinstance(o2, Err) or len(o2.arr) != n2 or o2.tail != 0xEE:
                raise Violation("wrong-value", f"arr[{text}] read #{idx + 2} of the same type with a={c2['a']} b={c2['b']} consts={consts}{' after constants a, b = ' + str(case['shadow']) + ' were defined' if shadowed else ''}: {o2 if isinstance(o2, Err) else len(o2.arr)!r} elements, expected {n2}")
        if len(seq) > 1:
            ctx.count("callers:array:re-read-with-other-fields")
        if shadowed:
            ctx.count("callers:array:constants-named-like-the-fields-defined-later")
        ctx.count("callers:array")
    elif via == "enum":
        env = {"P": c["a"], "Q": c["b"]}
        kind, want = _expect(_rename(ast), env, consts)
        if kind != "val":
            raise HarnessError("callers generator out of domain")
        etext = _rename_text(text)
        if case.get("shadow") and case["shadow"][0] % 2:
            defs += f"#define P {case['shadow'][0] + 10}\n#define Q {case['shadow'][1] + 20}\n"  # members shadow constants of their name
            ctx.count("callers:enum:constants-named-like-members")
        r = lib(cs.load, defs + f"enum E : int64 {{ P = {c['a']}, Q = {c['b']}, R = {etext}, S }};", compiled=case["compiled"])
        if isinstance(r, Err):
            raise Violation("well-formed-rejected", f"enum value {etext!r} rejected at load: {r}", r.where)
        if int(cs.E.R) != want or int(cs.E.S) != want + 1:
            raise Violation("wrong-value", f"enum R = {etext} with P={c['a']} Q={c['b']} consts={consts}: R={int(cs.E.R)} S={int(cs.E.S)}, expected {want},{want + 1}")
        ctx.count("callers:enum")
    else:
        sub = {"a": "K", "b": "M"}
        ast2 = _rename(ast, sub)
        kind, want = _expect(ast2, {}, consts)
        if kind != "val":
            ctx.count("callers:define-out-of-domain-skipped")
            return
        dtext = _rename_text(text, sub)
        r = lib(cs.load, defs + f"#define Z {dtext}\n")
        if isinstance(r, Err):
            raise Violation("well-formed-rejected", f"#define Z {dtext!r} rejected: {r}", r.where)
        if cs.consts.get("Z") != want:
            raise Violation("wrong-value", f"#define Z {dtext} with consts={consts}: {cs.consts.get('Z')!r}, expected {want}")
        ctx.count("callers:define")
    f = X.features(ast)
    if len(f["precs"]) >= 2 or f["un_after_bin"]:
        ctx.mark_nontrivial([via, text, c, consts])
        ctx.sample({"via": via, "text": text, "ctx": c, "consts": consts}, "callers:" + via)


def _rename(ast, sub=None):
    sub = sub or {"a": "P", "b": "Q"}
    k = ast[0]
    if k == "id":
        return ["id", sub.get(ast[1], ast[1])]
    if k in ("lit", "sizeof"):
        return ast
    if k == "par":
        return ["par", _rename(ast[1], sub)]
    if k == "un":
        return ["un", ast[1], _rename(ast[2], sub)]
    return ["bin", ast[1], _rename(ast[2], sub), _rename(ast[3], sub)]


def _rename_text(text, sub=None):
    import re

    sub = sub or {"a": "P", "b": "Q"}
    return re.sub(r"\b([ab])\b", lambda mm: sub[mm.group(1)], text)


FUZZ_ALPHABET = "0123456789abxXABuUlL()+-*/%&|^~<> \tnKsizeofuint8_"
FUZZ_CONSTS = {"A": 7, "B": 3, "n": 2, "K": 40}
FUZZ_CTX = {"n": 5, "x": 11}


def fuzz_stage(runner, ctx, shard, nshards, seed, tier):
    """Coverage-guided stage (atheris/libFuzzer) in a subprocess; every crash artefact becomes an ordinary replayable case."""
    import glob
    import json
    import os
    import shutil
    import subprocess
    import sys
    import tempfile

    from pbt.drive import REPO, VERIF

    deps = os.path.join(VERIF, ".deps")
    probe = subprocess.run([sys.executable, "-c", f"import sys; sys.path.append({deps!r}); import atheris"], capture_output=True)
    if probe.returncode != 0:
        ctx.count("fuzz:skipped(atheris-not-installed)")
        return
    tmp = tempfile.mkdtemp(prefix="vp-c10-fuzz-")
    try:
        corpus = os.path.join(tmp, "corpus")
        os.makedirs(corpus)
        if shard % 2:  # odd shards start from a few valid inputs, even shards from an empty corpus
            for i, t in enumerate(["1 + 2 * 3", "~(A + 5)", "0x1b << 2 | n", "sizeof(uint8) * (K - n)", "010ULL % 7", "-B - -n"]):
                with open(os.path.join(corpus, f"s{i}"), "wb") as fh:
                    fh.write(bytes(FUZZ_ALPHABET.index(c) for c in t if c in FUZZ_ALPHABET))
        runs = 150_000 if tier == "quick" else 4_000_000
        stats = os.path.join(tmp, "stats.json")
        cmd = [sys.executable, "-B", os.path.join(VERIF, "fuzz", "c10_fuzz.py"), stats, f"-runs={runs}", f"-seed={seed % (2**31 - 1) + 1}", "-max_len=48",
               f"-artifact_prefix={tmp}/", corpus]
        r = subprocess.run(cmd, capture_output=True, text=True, env=dict(os.environ, VERIF_REPO=REPO), timeout=1800)
        if os.path.exists(stats):
            st_ = json.load(open(stats))
            ctx.evaluations += st_["execs"]
            ctx.count("fuzz:execs", st_["execs"])
            ctx.count("fuzz:well-formed", st_["well_formed"])
            ctx.count("fuzz:in-domain-compared", st_["in_domain"])
        ctx.count("fuzz:corpus-" + ("seeded" if shard % 2 else "empty"))
        for art in sorted(glob.glob(os.path.join(tmp, "crash-*"))):
            data = open(art, "rb").read()
            text = "".join(FUZZ_ALPHABET[b % len(FUZZ_ALPHABET)] for b in data[:48])
            runner({"texts": [text], "consts": FUZZ_CONSTS, "ctx": FUZZ_CTX, "fuzz": True})
        if r.returncode not in (0,) and not glob.glob(os.path.join(tmp, "crash-*")):
            raise HarnessError(f"fuzz target failed without an artefact: {r.stderr[-800:]}")
    finally:
        shutil.rmtree(tmp, ignore_errors=True)


def selfcheck():
    """The reference parser agrees with Python's own evaluator on a fixed family (oracle validity; exit 2 if not)."""
    for text in ["1 + 2 * 3", "1 | 2 ^ 3 & 4", "1 << 2 + 1", "7 - 2 - 1", "100 / 5 / 2", "~1 + -2 * 3", "(1 + 2) * 3", "1 - -1", "2 * ~3", "010 + 0x10 + 0b11"]:
        py = text.replace("/", "//").replace("010", "8")
        if X.evaluate(X.parse(text), {}, {}) != eval(py):  # noqa: S307 - fixed literals above
            raise HarnessError(f"reference evaluator disagrees with Python on {text!r}")


def stages(tier):
    if tier == "quick":
        return [
            HypStage("ast", ast_case, examples=1500, shards=6),
            HypStage("callers", caller_case, examples=300, shards=4),
            EnumStage("enum2", enum_cases(2, ATOMS[:4], PREFIXES), shards=6, scope="all expressions with <=2 binary operators over 4 atoms x 3 unary prefixes, flat (spaced and unspaced) and every full parenthesisation"),
            FuncStage("enum-fuzz", fuzz_stage, shards=2),
        ]
    return [
        HypStage("ast", ast_case, examples=20000, shards=8),
        HypStage("callers", caller_case, examples=3000, shards=4),
        EnumStage("enum2", enum_cases(2, ATOMS, PREFIXES + ["-~", "~-", "- -"]), shards=8, scope="<=2 binary operators over 6 atoms x 6 unary prefixes"),
        EnumStage("enum3", enum_cases(3, ATOMS[:3], PREFIXES[:2]), shards=16, scope="<=3 binary operators over 3 atoms x 2 unary prefixes"),
        FuncStage("enum-fuzz", fuzz_stage, shards=4),
    ]


