"""C01 — value round-trip; writing never silently alters a number."""
from __future__ import annotations

import io

from hypothesis import strategies as st

from pbt import common, gens, libside, refsem
from pbt.drive import EnumStage, Err, HarnessError, HypStage, Violation, import_repo, lib
from pbt.refsem import SCALARS, fkey

ID = "C01"
RULE = (
    "cases: generated definition x endian x packed/aligned x compiled/interpreted x a value obtained (a) by parsing a "
    "constructive or raw input, (b) by direct construction of the reference value tree through the public constructors; "
    "negative class: the same tree with one fixed-width integer / enum / pointer leaf (struct field or array element) "
    "replaced by an out-of-range neighbour (max+1, min-1, +-2^k); exhaustive table: every scalar type x 3 endian codes x "
    "boundary values in and out of range. Oracle: b = dumps(v); parsing b returns v2 with plain(v2) == plain(v), v2 == v, "
    "tell == len(b), T.dumps(v) == v.dumps(), len(b) == len(T) for fixed-size T; out-of-range values must raise. "
    "Non-trivial = >= 2 fields with one of {bit-field, array, nested, enum/flag, pointer, LEB128, padding} and a value that "
    "is not all zero; distinct by (definition, cfg, input, stage)."
)
ASSUMPTIONS = [
    "floats, char and bit-field widths are outside the 'rejected with an error' clause (it names fixed-width integer, enum and pointer fields)",
    "a value with NaN is compared by canonical form only (NaN != NaN under ==)",
    "values under a union are whatever the constructed/parsed object holds (union construction semantics are C11's subject)",
]


@st.composite
def rt_case(draw):
    case = draw(gens.input_case(gens.opts(long_strings=True, null_structs=True, bits_char=True, bits_odd=True, wide_bits=True), cfg_kw={"flip": True}))
    case["mode"] = draw(st.sampled_from(["parsed", "parsed", "constructed"]))
    return case


@st.composite
def mixed_case(draw):
    """Mixed alignment modes: a named structure loaded with the other align flag (its own load() call) used as a
    member, so an aligned structure can sit at an unaligned offset. Pure round-trip oracle (no reference sizes)."""
    case = draw(gens.input_case(gens.opts(mixed_align=True, unions=False, eof=False, signed_flags=False, max_depth=1)))
    case["mode"] = "parsed"
    case["mixed"] = True
    return case


@st.composite
def raw_case(draw):
    cfg = draw(gens.config(flip=True))
    o = gens.opts(max_fields=4, max_depth=1, align_hint=cfg["align"])
    d = draw(gens.definition(o))
    data = draw(st.binary(min_size=0, max_size=40)) + bytes(draw(st.integers(0, 24)))
    return {"defs": d["defs"], "root": "Root", "cfg": cfg, "data": data.hex(), "mode": "parsed-raw"}


@st.composite
def reject_case(draw):
    o = gens.opts(unions=False, leb=False, bits=draw(st.booleans()), eof=False)
    case = draw(gens.input_case(o, tail=False))
    case["mode"] = "reject"
    case["leaf"] = draw(st.integers(0, 10_000))
    case["how"] = draw(st.sampled_from(["max+1", "min-1", "big", "-big", "max+1", "min-1"]))
    return case


def scalar_table():
    for name, (c, size, _, signed) in SCALARS.items():
        if c != "int":
            continue
        bits = size * 8
        lo, hi = (-(1 << (bits - 1)), (1 << (bits - 1)) - 1) if signed else (0, (1 << bits) - 1)
        vals = sorted({lo, lo + 1, -1, 0, 1, 2, 127, 128, 255, 256, hi - 1, hi, lo - 1, hi + 1, hi + 2, lo - 2, 1 << bits, -(1 << bits), (1 << bits) + 5, 1 << (bits + 8), -(1 << (bits + 8)), hi // 2, lo // 2, 1 << (bits // 2)})
        for endian in "<>!":
            for v in vals:
                yield {"scalar": name, "value": v, "endian": endian, "lo": lo, "hi": hi}


# ---------------------------------------------------------------- oracle

def _int_leaves(sem, t, v, path=()):
    """Paths of fixed-width integer / enum / pointer leaves outside unions and bit-fields: (path, lo, hi)."""
    t = sem.res(t)
    k = t["k"]
    if k == "s":
        c, size, _, signed = SCALARS[t["n"]]
        if c == "int":
            yield path, size, signed
    elif k == "e":
        size, signed = SCALARS[sem.enumdef(t)["base"]][1], SCALARS[sem.enumdef(t)["base"]][3]
        yield path, size, signed
    elif k == "p":
        yield path, SCALARS[sem.ptr][1], False
    elif k == "a":
        if isinstance(v, list):
            for i, e in enumerate(v):
                yield from _int_leaves(sem, t["t"], e, path + (i,))
    elif k == "st" and t["kind"] == "struct":
        for i, f in enumerate(t["fields"]):
            if f.get("bits"):
                continue
            yield from _int_leaves(sem, f["t"], v[fkey(f, i)], path + (fkey(f, i),))


def _leaf_type(sem, t, path):
    for p in path:
        t = sem.res(t)
        if t["k"] == "a":
            t = t["t"]
        else:
            t = [f["t"] for i, f in enumerate(t["fields"]) if fkey(f, i) == p][0]
    return sem.res(t)


def _set_path(v, path, new):
    if not path:
        return new
    if isinstance(v, dict):
        out = dict(v)
    else:
        out = list(v)
    out[path[0]] = _set_path(v[path[0]], path[1:], new)
    return out


def _roundtrip(case, ctx, T, obj, label, ref):
    v = libside.plain(obj)
    cv = refsem.canon(v)
    desc = lambda extra=None: common.describe(case, dict({"value": repr(v)[:600], "how": label}, **(extra or {})))  # noqa: E731
    b = lib(obj.dumps)
    if isinstance(b, Err):
        raise Violation("dumps-raised", f"{desc()} -> {b}", b.where, {"exc": b.type, "label": label})
    b2 = lib(T.dumps, obj)
    if isinstance(b2, Err) or b2 != b:
        raise Violation("dumps-forms-differ", f"T.dumps(v)={b2!r} v.dumps()={b.hex()}: {desc()}")
    s = io.BytesIO(b)
    v2 = lib(T, s)
    if isinstance(v2, Err):
        raise Violation("reparse-raised", f"parsing dumps(v)={b.hex()} raised {v2}: {desc()}", v2.where, {"exc": v2.type, "dump": b.hex()})
    cv2 = libside.cplain(v2)
    if cv2 != cv:
        paths = common.diff_paths(cv, cv2)
        raise Violation("roundtrip-value-differs", f"at {paths[:5]}: dumps(v)={b.hex()} parses to {cv2!r}, v={cv!r}: {desc()}", info={"paths": paths, "dump": b.hex()})
    if s.tell() != len(b):
        raise Violation("roundtrip-consumed-differs", f"dumps(v) has {len(b)} bytes, parsing it consumed {s.tell()}: {desc({'dump': b.hex()})}")
    if not gens.has_eof(ref["sem"].res(common.ROOT)):
        # ... also when more bytes follow: exactly len(dumps(v)) are consumed, the value is the same
        s3 = io.BytesIO(b + b"\xa5\x00\xff\x5a")
        v3 = lib(T, s3)
        if isinstance(v3, Err) or libside.cplain(v3) != cv or s3.tell() != len(b):
            raise Violation("roundtrip-consumed-differs", f"dumps(v) followed by other bytes: parse gives {v3 if isinstance(v3, Err) else libside.cplain(v3)!r} and consumes {s3.tell()} of {len(b)} bytes: {desc({'dump': b.hex()})}")
    if not refsem.has_nan(v):
        eq = lib(lambda: v2 == obj)
        if eq is not True:
            raise Violation("roundtrip-not-equal", f"parse(dumps(v)) == v is {eq!r} although the plain values agree: {desc({'dump': b.hex()})}")
    size = ref["sem"].size(common.ROOT)
    if size is not None and not case.get("mixed") and (len(b) != size or len(T) != size):
        raise Violation("fixed-size-differs", f"len(dumps)={len(b)} len(T)={len(T)} reference size {size}: {desc()}")
    return v, b


def _editable_leaves(sem, t, v, path=(), refs=frozenset()):
    """Integer / enum / pointer leaves that can be reassigned without changing the shape of the value: not a length
    source, not inside a null-terminated array or a union, not a bit-field, not a flag over a signed type."""
    t = sem.res(t)
    k = t["k"]
    if k == "s":
        if SCALARS[t["n"]][0] == "int":
            yield path
    elif k == "e":
        d = sem.enumdef(t)
        if not (d["kind"] == "flag" and SCALARS[d["base"]][3]):
            yield path
    elif k == "p":
        yield path
    elif k == "a":
        if t["len"][0] in ("fixed", "expr") and isinstance(v, list):
            for i, e in enumerate(v[:3]):
                yield from _editable_leaves(sem, t["t"], e, path + (i,))
    elif k == "st" and t["kind"] == "struct":
        names = gens.referenced_names(t)
        for i, f in enumerate(t["fields"]):
            if f.get("bits") or f.get("name") is None or f["name"] in names:
                continue
            yield from _editable_leaves(sem, f["t"], v[fkey(f, i)], path + (fkey(f, i),))


def _lib_assign(sem, obj, path, new):
    """obj.<path> = new, walking attributes / indices the way a user would."""
    t = sem.res(common.ROOT)
    holder = obj
    ltype = type(obj)  # library type of `holder`

    def conv(lt):
        return lt(new) if hasattr(lt, "__members__") else new  # enum / flag fields hold members of their class

    for n, p in enumerate(path):
        last = n == len(path) - 1
        if isinstance(p, int):
            if last:
                holder[p] = conv(ltype.type)
                return
            holder = holder[p]
            ltype = ltype.type
            t = sem.res(t["t"])
        else:
            idx = [i for i, f in enumerate(t["fields"]) if fkey(f, i) == p][0]
            lf = ltype.__fields__[idx]
            if last:
                setattr(holder, lf._name, conv(lf.type))
                return
            holder = getattr(holder, lf._name)
            ltype = lf.type
            t = sem.res(t["fields"][idx]["t"])


def _edit_and_roundtrip(case, ctx, T, obj, v, ref):
    """History of two steps: a value that was parsed (or constructed), then edited in one leaf, round-trips as edited."""
    sem = ref["sem"]
    leaves = list(_editable_leaves(sem, common.ROOT, v))
    if not leaves:
        return
    path = leaves[(len(case["data"]) * 7 + len(leaves)) % len(leaves)]
    old = v
    for p in path:
        old = old[p]
    if not isinstance(old, int):
        return
    new = old ^ 1
    r = lib(_lib_assign, sem, obj, path, new)
    if isinstance(r, Err):
        raise Violation("assignment-raised", f"assigning {new} at {path}: {r}: {common.describe(case)}", r.where)
    want = refsem.canon(_set_path(v, path, new))
    b = lib(obj.dumps)
    if isinstance(b, Err):
        raise Violation("dumps-raised", f"after assigning {new} at {path}: {b}: {common.describe(case)}", b.where, {"exc": b.type, "label": "edited"})
    v2 = lib(T, io.BytesIO(b))
    if isinstance(v2, Err) or libside.cplain(v2) != want:
        raise Violation("edited-value-not-written", f"after assigning {new} (was {old}) at {path}: dumps={b.hex()} parses to {v2 if isinstance(v2, Err) else libside.cplain(v2)!r}, the edited value is {want!r}: {common.describe(case)}")
    ctx.count("edited-after-" + case["mode"])


def run_case(case, ctx):
    if "scalar" in case:
        return _run_scalar(case, ctx)
    mode = case["mode"]
    ref = common.reference(case)
    ctx.count(f"{mode}:input:{ref['status']}")
    if ref["status"] not in ("ok", "noncanonical"):
        return
    if ref["status"] == "noncanonical" and mode != "parsed-raw":
        return
    sem = ref["sem"]
    cs = common.load(case)
    if case["cfg"].get("load_endian"):
        ctx.count("endian-switched-after-load")
    if case["cfg"].get("grow") and libside._grow_plan(case["defs"], case["cfg"]):
        ctx.count("root-declared-short-used-then-completed-through-add_field")
    T = cs.Root
    if mode in ("parsed", "parsed-raw"):
        obj = lib(T, io.BytesIO(ref["data"]))
        if isinstance(obj, Err):
            if ref["status"] == "noncanonical":
                ctx.count("parsed-raw:noncanonical-rejected")
                return
            raise Violation("accepted-input-rejected", f"{common.describe(case)} -> {obj}", obj.where)
        v, b = _roundtrip(case, ctx, T, obj, mode, ref)
        if mode == "parsed" and ref["status"] == "ok":
            _edit_and_roundtrip(case, ctx, T, obj, v, ref)
    elif mode == "constructed":
        obj = lib(libside.build_value, T, sem, common.ROOT, ref["want"])
        if isinstance(obj, Err):
            raise Violation("construction-raised", f"constructing {ref['want']!r}: {common.describe(case)} -> {obj}", obj.where)
        v, b = _roundtrip(case, ctx, T, obj, mode, ref)
        _edit_and_roundtrip(case, ctx, T, obj, v, ref)
    elif mode == "reject":
        leaves = list(_int_leaves(sem, common.ROOT, ref["want"]))
        if not leaves:
            ctx.count("reject:no-integer-leaf")
            return
        path, size, signed = leaves[case["leaf"] % len(leaves)]
        bits = size * 8
        lo, hi = (-(1 << (bits - 1)), (1 << (bits - 1)) - 1) if signed else (0, (1 << bits) - 1)
        new = {"max+1": hi + 1, "min-1": lo - 1, "big": 1 << (bits + 3), "-big": -(1 << (bits + 3))}[case["how"]]
        lt = _leaf_type(sem, common.ROOT, path)
        if lt["k"] == "e" and sem.enumdef(lt)["kind"] == "flag" and new < 0:
            # Flag(-n) is Python's documented "invert" spelling, not a number to be written: hand over the raw integer
            tree = _set_path(ref["want"], path, libside.Raw(new))
            ctx.count("reject:flag-negative-as-raw-int")
        else:
            tree = _set_path(ref["want"], path, new)
        obj = lib(libside.build_value, T, sem, common.ROOT, tree)
        if isinstance(obj, Err):
            ctx.count("reject:refused-at-construction")
            ctx.mark_nontrivial([case["defs"], case["cfg"], list(map(str, path)), case["how"]])
            return
        b = lib(obj.dumps)
        if isinstance(b, Err):
            ctx.count("reject:refused-at-dumps")
            ctx.count("reject:position:" + ("array-element" if any(isinstance(p, int) for p in path) else "field") + (":nested" if len([p for p in path if isinstance(p, str)]) > 1 else ""))
            ctx.mark_nontrivial([case["defs"], case["cfg"], list(map(str, path)), case["how"]])
            ctx.sample(common.describe(case, {"path": list(map(str, path)), "out_of_range_value": new, "raised": b.type}), "reject")
            return
        back = lib(lambda: libside.cplain(T(io.BytesIO(b))))
        lt = _leaf_type(sem, common.ROOT, path)
        lk = {"s": "int", "p": "pointer"}.get(lt["k"]) or sem.enumdef(lt)["kind"]
        raise Violation(
            f"out-of-range-written:{lk}:{'negative' if new < 0 else 'positive'}",
            f"value {new} at {path} (range [{lo},{hi}]) was written as {b.hex()} which parses back to {back!r}: {common.describe(case)}",
            info={"path": list(map(str, path))},
        )
    feats = common.model_features(sem, common.ROOT)
    for f in feats:
        if not f.startswith("fields:"):
            ctx.count("has:" + f)
    ctx.count("cfg:" + ("aligned" if case["cfg"]["align"] else "packed") + ":" + case["cfg"]["endian"] + (":compiled" if getattr(T, "__compiled__", False) else ":interpreted"))
    interesting = feats & {"bit-field", "array", "nested-struct", "nested-union", "enum", "flag", "pointer", "leb128"}
    nf = len(sem.res(common.ROOT)["fields"])
    if nf >= 2 and interesting and any(b):
        ctx.mark_nontrivial([case["defs"], case["cfg"], case["data"], mode])
        ctx.sample(common.describe(case, {"how": mode, "dumps": b.hex()}), mode)


def _run_scalar(case, ctx):
    m = import_repo()
    cs = m.cstruct(endian=case["endian"])
    T = getattr(cs, case["scalar"])
    v, lo, hi = case["value"], case["lo"], case["hi"]
    size = SCALARS[case["scalar"]][1]
    for form in ("scalar", "array"):
        TT = T if form == "scalar" else T[2]
        val = v if form == "scalar" else [0, v]
        b = lib(TT.dumps, val)
        if lo <= v <= hi:
            if isinstance(b, Err):
                raise Violation("in-range-rejected", f"{case['scalar']}{'' if form == 'scalar' else '[2]'}.dumps({val}) endian {case['endian']} raised {b}", b.where)
            want = v.to_bytes(size, "little" if case["endian"] == "<" else "big", signed=lo < 0)
            if b[-size:] != want:
                raise Violation("wrong-encoding", f"{case['scalar']}.dumps({val}) endian {case['endian']} = {b.hex()}, expected ...{want.hex()}")
            back = lib(TT, b)
            if isinstance(back, Err) or libside.plain(back) != val:
                raise Violation("roundtrip-value-differs", f"{case['scalar']}({b.hex()}) = {back!r}, expected {val}")
            ctx.count("scalar:in-range")
        else:
            if not isinstance(b, Err):
                raise Violation("out-of-range-written", f"{case['scalar']}{'' if form == 'scalar' else '[2]'}.dumps({val}) endian {case['endian']} returned {b.hex()} (range [{lo},{hi}])")
            ctx.count("scalar:out-of-range-refused")
    ctx.mark_nontrivial([case["scalar"], case["value"], case["endian"]])
    if v in (hi + 1, lo - 1):
        ctx.sample(case, "scalar")


def stages(tier):
    q = tier == "quick"
    return [
        HypStage("roundtrip", rt_case, examples=900 if q else 6000, shards=8 if q else 16),
        HypStage("raw", raw_case, examples=500 if q else 4000, shards=3 if q else 8),
        HypStage("reject", reject_case, examples=500 if q else 4000, shards=4 if q else 8),
        EnumStage("scalars", scalar_table, shards=1, scope="every fixed-width integer type x endian in {<,>,!} x ~24 boundary values in and out of range, as scalar and as array element"),
    ]


# ---------------------------------------------------------------- known findings

def _kf_signed_flag(case, v):
    if "defs" not in case:
        return False
    ref = common.reference(case)
    has_signed_flag = "signed-flag" in common.model_features(ref["sem"], common.ROOT)
    if not has_signed_flag:
        return False
    if v.kind == "dumps-raised":
        return v.info.get("exc") in ("OverflowError", "error") and v.where in ("int.py:_write", "packed.py:_write", "packed.py:_write_array") and (
            bool(common.neg_flag_spans(ref)) or v.info.get("label") == "constructed"
        )
    if v.kind == "roundtrip-value-differs" and case.get("mode") in ("parsed", "parsed-raw") and ref["status"] == "ok" and common.neg_flag_spans(ref):
        # a negative flag element of a null-terminated array came back from the parser as another number (possibly 0,
        # which then reads as the terminator): every differing path lies in such an array holding a negative element
        sem, root = ref["sem"], ref["sem"].res(common.ROOT)
        for path in v.info.get("paths", []):
            top = path.lstrip(".").split(".")[0].split("[")[0]
            fld = [(i, f) for i, f in enumerate(root["fields"]) if fkey(f, i) == top]
            if not fld:
                return False
            i, f = fld[0]
            t = sem.res(f["t"])
            if t["k"] != "a" or t["len"][0] != "null":
                return False
            et = sem.res(t["t"])
            if et["k"] != "e":
                return False
            d = sem.enumdef(et)
            if not (d["kind"] == "flag" and SCALARS[d["base"]][3] and any(isinstance(x, int) and x < 0 for x in ref["want"][top])):
                return False
        return bool(v.info.get("paths"))
    return False


def _kf_union_dump(case, v):
    if "defs" not in case or v.kind not in ("roundtrip-value-differs", "reparse-raised"):
        return False
    ref = common.reference(case)
    if not ref.get("unions"):
        return False
    sem = ref["sem"]
    if v.kind == "reparse-raised":
        # the dump lost exactly bytes in the writer's blind spots, and the re-parse chokes on the damaged member
        if case.get("mode") != "parsed" or ref["status"] != "ok" or "dump" not in v.info:
            return False
        dump, data, mask = bytes.fromhex(v.info["dump"]), ref["data"], ref["mask"]
        blind = common.union_dump_blind_spots(ref)
        bad = [i for i in range(min(len(dump), ref["end"])) if (dump[i] ^ data[i]) & mask[i]]
        return bool(bad) and all(i in blind for i in bad)
    import re

    def through_union(path):
        """The differing leaf lies inside a union with >= 2 members."""
        t = common.ROOT
        for tok in re.findall(r"\.([^.\[\]]+)|\[(\d+)\]", path):
            t = sem.res(t)
            if tok[1]:
                if t["k"] != "a":
                    return False
                t = t["t"]
                continue
            if t["k"] != "st":
                return False
            if t["kind"] == "union" and len(t["fields"]) >= 2:
                return True
            nxt = [f["t"] for i, f in enumerate(t["fields"]) if fkey(f, i) == tok[0]]
            if not nxt:
                return False
            t = nxt[0]
        return False

    paths = v.info.get("paths", [])
    if not (bool(paths) and all(through_union(p) for p in paths)):
        return False
    if ref["status"] == "ok" and "dump" in v.info and case.get("mode") in ("parsed", "constructed") and not common.neg_flag_spans(ref):
        # exactly this finding: the dump is what a writer that serialises only the first largest member produces
        sem2 = refsem.Sem(case["defs"], case["cfg"])
        sem2.union_write = "largest"
        try:
            return bytes(sem2.encode(common.ROOT, ref["want"])) == bytes.fromhex(v.info["dump"])
        except Exception:  # noqa: BLE001 - the writer model cannot encode this value: not recognisably this finding
            return False
    return True


KNOWN_PREDICATES = {"signed-flag-negative-value": _kf_signed_flag, "union-dump-largest-member-only": _kf_union_dump}
