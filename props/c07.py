"""C07 — array length semantics: fixed, expression, null-terminated and to-end-of-stream."""
from __future__ import annotations

import io

from hypothesis import strategies as st

from pbt import common, gens, libside, refsem
from pbt.drive import EnumStage, Err, HarnessError, HypStage, Violation, import_repo, lib
from pbt.refsem import SCALARS, S, Sem, fkey

ID = "C07"
RULE = (
    "cases: (a) array-heavy generated structures (element in packed ints, floats, odd-width ints, char, wchar, enum, flag, "
    "LEB128, structs incl. dynamic ones, arrays; length form fixed 0..4 / expression over earlier fields and constants "
    "incl. negative results / null-terminated / EOF; multi-dimensional) parsed in both reader modes from constructive "
    "inputs; (b) stand-alone array types cs.T[n], cs.T[None] over every element kind incl. null-terminated arrays of "
    "all-integer structures; (c) x[EOF] with ragged tails; (d) dumping a fixed non-character array with len != n. Oracle: "
    "independent reference decode (element count, contents in C order, consumed bytes incl. the terminator), dumps == "
    "reference encoding (terminator re-appended), ragged EOF tail => whole elements (stream left behind them) or an error but never a partial "
    "element, wrong-length dump must raise and right-length must succeed. Non-trivial = element count >= 2 or a dynamic "
    "length form, with element size > 1 or a composite element; distinct by (definition, cfg, input)."
)
ASSUMPTIONS = [
    "char/wchar arrays are not size-enforced on write (README: 'array sizes are not enforced'); the refusal clause is checked for non-character elements only",
    "x[EOF] with a ragged tail may raise instead of returning the whole elements (DESIGN §3.5)",
    "a negative *constant* bound is not a valid declaration and is not generated",
]

ELEMS = ["uint8", "int16", "uint32", "int64", "uint24", "int48", "uint128", "float", "double", "float16", "char", "wchar", "uleb128", "ileb128", "enum", "flag", "struct", "dynstruct", "array"]


@st.composite
def field_case(draw):
    o = gens.opts(max_fields=5, max_depth=1, bits=draw(st.booleans()), bits_weight=1, void=False, unions=False, pointers=draw(st.booleans()), signed_flags=False, array_weight=True, long_strings=True, null_structs=True, multidim_dyn=True)
    return draw(gens.input_case(o))


@st.composite
def twin_case(draw):
    """Two inline structures carrying the SAME tag but different bodies, as elements of arrays with the same length
    spelling (so the array types carry the same display name, e.g. 'entry[2]'): element boundaries follow each
    array's own element type."""
    ints = ["uint8", "uint16", "uint32", "int24", "int64"]

    def body(prefix):
        return [{"name": f"{prefix}{i}", "t": S(draw(st.sampled_from(ints))), "bits": None} for i in range(draw(st.integers(1, 3)))]

    form = draw(st.sampled_from(["fixed", "fixed", "expr", "null"]))
    k = draw(st.integers(1, 3))

    def ln():
        return {"fixed": ["fixed", k], "expr": ["expr", "n", ["id", "n"]], "null": ["null"]}[form]

    a = {"k": "st", "kind": "struct", "name": "entry", "fields": body("a")}
    b = {"k": "st", "kind": "struct", "name": "entry", "fields": body("b")}
    holder = {"k": "st", "kind": "struct", "name": None, "fields": [{"name": "n", "t": S("uint8"), "bits": None}, {"name": "e", "t": {"k": "a", "t": b, "len": ln()}, "bits": None}]}
    fields = [{"name": "n", "t": S("uint8"), "bits": None}, {"name": "e", "t": {"k": "a", "t": a, "len": ln()}, "bits": None}, {"name": "mid", "t": S("uint8"), "bits": None},
              {"name": "q", "t": holder, "bits": None}, {"name": "tail", "t": S("uint16"), "bits": None}]
    if draw(st.booleans()):
        fields[1], fields[3] = dict(fields[3], name="q"), dict(fields[1], name="e")
    defs = [{"k": "structdef", "n": "Root", "t": {"k": "st", "kind": "struct", "name": None, "fields": fields}}]
    cfg = draw(gens.config(flip=True))
    sem = Sem(defs, cfg)
    v = gens.gen_value(draw, sem, gens.ROOT)
    enc = bytes(sem.encode(gens.ROOT, v))
    return {"defs": defs, "root": "Root", "cfg": cfg, "data": (enc + draw(st.binary(max_size=3))).hex(), "consumed": len(enc), "twin": True}


def _elem(draw, kind, defs):
    if kind == "enum" or kind == "flag":
        base = draw(st.sampled_from(["uint8", "int16", "uint32", "uint24", "uint64"] if kind == "enum" else ["uint8", "uint16", "uint32", "uint24"]))
        d = {"k": "enumdef", "n": "E", "kind": kind, "base": base, "members": [["A", 1], ["B", 2], ["C", 4]]}
        defs.append(d)
        return {"k": "e", "n": "E"}
    if kind == "struct":
        n = draw(st.integers(1, 3))
        fields = [{"name": f"m{i}", "t": S(draw(st.sampled_from(["uint8", "int16", "uint32", "uint24"]))), "bits": None} for i in range(n)]
        defs.append({"k": "structdef", "n": "Elem", "t": {"k": "st", "kind": "struct", "name": None, "fields": fields}})
        return {"k": "ref", "n": "Elem"}
    if kind == "dynstruct":
        fields = [{"name": "n", "t": S("uint8"), "bits": None}, {"name": "d", "t": {"k": "a", "t": S(draw(st.sampled_from(["uint8", "uint16", "char"]))), "len": ["expr", "n", ["id", "n"]]}, "bits": None}]
        defs.append({"k": "structdef", "n": "Elem", "t": {"k": "st", "kind": "struct", "name": None, "fields": fields}})
        return {"k": "ref", "n": "Elem"}
    if kind == "array":
        return {"k": "a", "t": S(draw(st.sampled_from(["uint8", "uint16", "char", "int24"]))), "len": ["fixed", draw(st.integers(1, 3))]}
    return S(kind)


@st.composite
def standalone_case(draw):
    kind = draw(st.sampled_from(ELEMS))
    defs = []
    et = _elem(draw, kind, defs)
    forms = ["fixed", "fixed"]
    if kind not in ("float", "double", "float16", "dynstruct", "array"):
        forms.append("null")
    form = draw(st.sampled_from(forms))
    ln = ["fixed", draw(st.integers(0, 5))] if form == "fixed" else ["null"]
    at = {"k": "a", "t": et, "len": ln}
    cfg = {"endian": draw(st.sampled_from("<>")), "align": False, "ptr": "uint32", "compiled": draw(st.booleans())}
    sem = Sem(defs, cfg)
    v = gens.gen_value(draw, sem, at)
    if form == "null" and kind == "struct" and isinstance(v, list):
        # zero element = all fields falsy; make sure no generated element is accidentally the terminator
        v = [e for e in v if not sem._is_zero(sem.res(et), e)]
    enc = bytes(sem.encode(at, v))
    tail = draw(st.binary(max_size=3))
    return {"standalone": True, "defs": defs, "elem": et, "len": ln, "kind": kind, "cfg": cfg, "data": (enc + tail).hex(), "consumed": len(enc)}


@st.composite
def ragged_case(draw):
    et = draw(st.sampled_from(["uint16", "uint32", "int64", "uint24", "wchar", "float", "int48"]))
    size = SCALARS[et][1]
    n = draw(st.integers(0, 4))
    extra = draw(st.integers(1, size - 1))
    head = draw(st.binary(min_size=1, max_size=1))
    if et == "wchar":
        body = ("ab€c"[:n]).encode("utf-16-le")
    elif et == "float":
        body = bytes([0, 0, 0x80, 0x3F]) * n
    else:
        body = draw(st.binary(min_size=size * n, max_size=size * n))
    return {"ragged": True, "elem": et, "n": n, "data": (head + body + draw(st.binary(min_size=extra, max_size=extra))).hex(), "compiled": draw(st.booleans()), "endian": "<"}


@st.composite
def refuse_case(draw):
    # elements of fixed size only: for a fixed count of variable-size elements (uleb128 x[4]) the library does not
    # enforce the count and the statement ("fixed-size array") does not clearly demand it - observed, not claimed
    et = draw(st.sampled_from(["uint8", "int16", "uint32", "uint24", "int64", "double", "enum", "struct", "flag", "pointer", "row", "row"]))
    n = draw(st.integers(0, 4))
    k = draw(st.integers(0, 6).filter(lambda x: x != n)) if draw(st.integers(0, 3)) else n
    case = {"refuse": True, "elem": et, "n": n, "given": k, "where": draw(st.sampled_from(["field", "standalone", "nested", "union"])), "compiled": draw(st.booleans())}
    if et == "row":
        # element = a fixed array (T arr[n][m]): the outer list, or ONE inner row, has the wrong length
        case["m"] = draw(st.integers(1, 3))
        case["bad_row"] = draw(st.integers(-1, max(0, k - 1)))  # -1: all rows have m elements
        case["row_len"] = draw(st.integers(0, 4).filter(lambda x: x != case["m"]))
    return case


# ---------------------------------------------------------------- oracle

def _compare(case, ctx, T, sem, tnode, data, want, end, label):
    s = io.BytesIO(data)
    obj = lib(T, s)
    desc = lambda: common.describe(case, {"what": label})  # noqa: E731
    if isinstance(obj, Err):
        raise Violation("accepted-input-rejected", f"{desc()} -> {obj}", obj.where)
    got = libside.cplain(obj)
    w = refsem.canon(want)
    if got != w:
        raise Violation("elements-differ", f"at {common.diff_paths(w, got)[:5]}: parsed {got!r}, reference {w!r}: {desc()}")
    if s.tell() != end:
        raise Violation("consumed-differs", f"stream at {s.tell()}, reference {end}: {desc()}")
    d = lib(T.dumps, obj)
    if isinstance(d, Err):
        raise Violation("dumps-raised", f"{desc()} -> {d}", d.where)
    wantd = bytes(sem.encode(tnode, want))
    if len(wantd) < end:
        wantd += bytes(end - len(wantd))
    if d != wantd:
        raise Violation("dumps-differs", f"dumps {d.hex()}, reference encoding {wantd.hex()}: {desc()}")
    # dumping is repeatable and leaves the value alone (the terminator is re-appended to the OUTPUT, not to the array)
    after = libside.cplain(obj)
    if after != w:
        raise Violation("dump-changed-the-value", f"after dumps the object holds {after!r}, before {w!r}: {desc()}")
    d2 = lib(T.dumps, obj)
    if isinstance(d2, Err) or d2 != d:
        raise Violation("second-dump-differs", f"second dumps {d2!r}, first {d.hex()}: {desc()}")
    return obj


def _array_stats(sem, t, v, ctx, acc):
    t = sem.res(t)
    if t["k"] == "a":
        form = t["len"][0]
        n = len(v)
        et = sem.res(t["t"])
        esz = sem.size(et)
        ctx.count(f"array:{form}:" + ("0" if n == 0 else "1" if n == 1 else "2+"))
        if (n >= 2 or form != "fixed") and (esz is None or esz > 1 or et["k"] in ("st", "a")):
            acc["nt"] = True
        if isinstance(v, list):
            for e in v:
                _array_stats(sem, et, e, ctx, acc)
    elif t["k"] == "st":
        for i, f in enumerate(t["fields"]):
            _array_stats(sem, f["t"], v[fkey(f, i)], ctx, acc)


def run_case(case, ctx):
    m = import_repo()
    if case.get("counts"):
        return _run_counts(case, ctx, m)
    if case.get("constants"):
        return _run_const(case, ctx, m)
    if case.get("ragged"):
        return _run_ragged(case, ctx, m)
    if case.get("refuse"):
        return _run_refuse(case, ctx, m)
    if case.get("zero_spellings"):
        return _run_zero_spellings(case, ctx, m)
    if case.get("standalone"):
        sem = Sem(case["defs"], case["cfg"])
        cs = m.cstruct(endian=case["cfg"]["endian"])
        if case["defs"]:
            r = lib(cs.load, libside.render(case["defs"]), compiled=case["cfg"]["compiled"])
            if isinstance(r, Err):
                raise Violation("definition-rejected", f"{libside.render(case['defs'])}: {r}", r.where)
        et = case["elem"]
        ET = _lib_type(cs, et)
        T = ET[case["len"][1]] if case["len"][0] == "fixed" else ET[None]
        tnode = {"k": "a", "t": et, "len": case["len"]}
        data = bytes.fromhex(case["data"])
        want, end = sem.decode(tnode, data, 0)
        if end != case["consumed"]:
            raise HarnessError("standalone generator: decode does not consume the encoding")
        _compare(case | {"defs": case["defs"] + [{"k": "define", "n": "ARRAY_OF", "v": f"{case['kind']} {case['len']}"}]}, ctx, T, sem, tnode, data, want, end, f"stand-alone {case['kind']}{case['len']}")
        ctx.count(f"standalone:{case['kind']}:{case['len'][0]}")
        n = len(want)
        if n >= 2 or case["len"][0] == "null":
            ctx.mark_nontrivial([case["kind"], case["len"], case["data"], case["cfg"]])
            ctx.sample({"type": f"{case['kind']}[{'' if case['len'][0] == 'null' else case['len'][1]}]", "defs": libside.render(case["defs"]), "data": case["data"], "elements": n}, "standalone:" + case["len"][0])
        return
    ref = common.reference(case)
    if ref["status"] != "ok":
        ctx.count("input:" + ref["status"])
        return
    sem = ref["sem"]
    cs = common.load(case)
    if case["cfg"].get("load_endian"):
        ctx.count("endian-switched-after-load")
    if case["cfg"].get("grow") and libside._grow_plan(case["defs"], case["cfg"]):
        ctx.count("root-declared-short-used-then-completed-through-add_field")
    _compare(case, ctx, cs.Root, sem, common.ROOT, ref["data"], ref["want"], ref["end"], "field arrays")
    acc = {}
    _array_stats(sem, common.ROOT, ref["want"], ctx, acc)
    feats = common.model_features(sem, common.ROOT)
    for f in feats:
        if f.startswith("array"):
            ctx.count("has:" + f)
    ctx.count("reader:" + ("compiled" if getattr(cs.Root, "__compiled__", False) else "interpreted"))
    if acc.get("nt"):
        ctx.mark_nontrivial([case["defs"], case["cfg"], case["data"]])
        ctx.sample(common.describe(case), "fields")


def _lib_type(cs, et):
    if et["k"] == "s":
        return getattr(cs, et["n"])
    if et["k"] in ("e", "ref"):
        return getattr(cs, et["n"])
    if et["k"] == "a":
        return _lib_type(cs, et["t"])[et["len"][1]]
    raise HarnessError("unsupported element")


def _run_ragged(case, ctx, m):
    et, n = case["elem"], case["n"]
    cs = m.cstruct(endian=case["endian"])
    cs.load(f"struct Root {{ uint8 h; {et} x[EOF]; }};", compiled=case["compiled"])
    data = bytes.fromhex(case["data"])
    rs = io.BytesIO(data)
    r = lib(cs.Root, rs)
    size = SCALARS[et][1]
    if isinstance(r, Err):
        ctx.count("ragged:raised:" + r.type)
    else:
        if rs.tell() != 1 + n * size:
            raise Violation("partial-element", f"{et} x[EOF] over {len(data) - 1} bytes ({n} whole elements + ragged tail) returned {libside.cplain(r.x)!r} and left the stream at {rs.tell()}: the value ends at {1 + n * size}, the bytes of the incomplete element were swallowed")
        whole = data[1 : 1 + n * size]
        sem = Sem([], {"endian": case["endian"], "align": False})
        want, _ = sem.decode({"k": "a", "t": S(et), "len": ["fixed", n]}, whole, 0)
        got = libside.cplain(r.x)
        if got != refsem.canon(want):
            raise Violation("partial-element", f"{et} x[EOF] over {len(data) - 1} bytes ({n} whole elements + ragged tail) returned {got!r}, whole elements are {refsem.canon(want)!r}")
        ctx.count("ragged:whole-elements")
    ctx.mark_nontrivial([et, n, case["data"]])
    ctx.sample({"definition": f"struct Root {{ uint8 h; {et} x[EOF]; }}", "data": case["data"], "whole_elements": n}, "ragged")


def _run_refuse(case, ctx, m):
    et, n, k = case["elem"], case["n"], case["given"]
    cs = m.cstruct()
    pre = ""
    tname = et
    if et == "enum":
        pre, tname = "enum E : uint16 { A = 1, B = 2 };\n", "E"
    if et == "struct":
        pre, tname = "struct Elem { uint8 a; uint16 b; };\n", "Elem"
    if et == "flag":
        pre, tname = "flag F : uint8 { X = 1, Y = 2 };\n", "F"
    decl = f"arr[{n}]"
    if et == "pointer":
        tname, decl = "uint8", f"*arr[{n}]"
    if et == "row":
        tname, decl = "uint16", f"arr[{n}][{case['m']}]"
    inner = f"struct Inner {{ {tname} {decl}; uint8 z; }};\n"
    cs.load(pre + inner + f"struct Root {{ uint8 h; {tname} {decl}; uint8 t; }};\nstruct Outer {{ Inner i; }};\nunion U {{ {tname} {decl}; uint8 one; }};", compiled=case["compiled"])
    ET = getattr(cs, tname)
    AT = cs.Root.fields["arr"].type  # the array type as declared

    def elem(i):
        if et == "row":
            ln = case["row_len"] if i == case["bad_row"] else case["m"]
            return [i + j for j in range(ln)]
        if et in ("enum", "flag"):
            return ET(i + 1)
        if et == "struct":
            return ET(a=i, b=i * 3)
        if et == "double":
            return float(i)
        return i

    vals = [elem(i) for i in range(k)]
    if case["where"] == "field":
        r = lib(lambda: cs.Root(h=1, arr=vals, t=2).dumps())
    elif case["where"] == "nested":
        r = lib(lambda: cs.Outer(i=cs.Inner(arr=vals, z=1)).dumps())
    elif case["where"] == "union":
        r = lib(lambda: cs.U(arr=vals).dumps())
    else:
        r = lib(lambda: AT.dumps(vals))
    what = f"{case['where']} {tname} {decl} dumped with {k} elements (compiled={case['compiled']})"
    wrong = k != n
    if et == "row" and 0 <= case["bad_row"] < k:
        wrong = True
        what += f", row {case['bad_row']} having {case['row_len']} instead of {case['m']} elements"
    if wrong:
        if not isinstance(r, Err):
            raise Violation("wrong-length-accepted", f"{what} was accepted and produced {r.hex()}")
        ctx.count("refuse:refused:" + ("inner-row" if k == n else "shorter" if k < n else "longer"))
        ctx.count(f"refuse:{et}:{case['where']}")
        ctx.mark_nontrivial([et, n, k, case["where"], case.get("bad_row"), case.get("row_len")])
        ctx.sample({"what": what, "raised": r.type}, "refuse")
    else:
        if isinstance(r, Err):
            raise Violation("right-length-refused", f"{what} raised {r}", r.where)
        ctx.count("refuse:right-length-accepted")


SPECIAL_COUNTS = [-1, -2, -0xE0F, -0xE0F + 1, -0xE0F - 1, -128, -32768, -255, -256, 0, 1, 2, 3]


@st.composite
def count_case(draw):
    return {"counts": True, "n": draw(st.sampled_from(SPECIAL_COUNTS)), "elem": draw(st.sampled_from(["uint8", "uint16", "char", "wchar", "int24", "E", "S"])),
            "form": draw(st.sampled_from(["n", "n + 0", "n - 3600 + 3600", "n * 1"])), "compiled": draw(st.booleans()), "endian": draw(st.sampled_from("<>")),
            "standalone": draw(st.booleans())}


def _run_counts(case, ctx, m):
    """x[expr] holds max(0, expr) elements for every value of expr, also for values that look like internal sentinels."""
    n, et = case["n"], case["elem"]
    cs = m.cstruct(endian=case["endian"])
    esize = {"uint8": 1, "uint16": 2, "char": 1, "wchar": 2, "int24": 3, "E": 2, "S": 3}[et]
    text = "enum E : uint16 { A = 1, B = 2 };\nstruct S { uint8 a; uint16 b; };\n" + f"struct Root {{ int16 n; {et} data[{case['form']}]; uint8 tail; }};\n"
    r = lib(cs.load, text, compiled=case["compiled"])
    if isinstance(r, Err):
        raise Violation("definition-rejected", f"{text}: {r}", r.where)
    want = max(0, n)
    body = b"".join((b"A\x00" if et == "wchar" and case["endian"] == "<" else b"\x00A" if et == "wchar" else bytes([i + 1] * esize)) for i in range(want))
    data = n.to_bytes(2, "little" if case["endian"] == "<" else "big", signed=True) + body + b"\xEE" + b"\x11\x22\x33\x44\x55\x66"
    s = io.BytesIO(data)
    obj = lib(cs.Root, s)
    what = f"int16 n = {n}; {et} data[{case['form']}] (compiled={case['compiled']}, endian {case['endian']})"
    if isinstance(obj, Err):
        raise Violation("counts:parse-raised", f"{what}: {obj}", obj.where)
    if len(obj.data) != want or obj.tail != 0xEE or s.tell() != 2 + want * esize + 1:
        raise Violation("counts:wrong-count", f"{what}: {len(obj.data)} elements, tail {obj.tail:#x}, stream at {s.tell()}; max(0, n) = {want}")
    if case["standalone"] and n <= 0 and et in ("uint8", "uint16", "int24"):
        T = getattr(cs, et)[n]
        s2 = io.BytesIO(b"\x01\x02\x03\x04\x05\x06")
        v = lib(T, s2)
        if isinstance(v, Err) or len(v) != 0 or s2.tell() != 0:
            raise Violation("counts:wrong-count", f"cs.{et}[{n}] parsed {v!r} leaving the stream at {s2.tell()}, expected no elements")
    ctx.count("counts:" + ("negative" if n < 0 else "non-negative"))
    ctx.mark_nontrivial(case)
    ctx.sample({"what": what, "elements": want}, "counts")


@st.composite
def const_case(draw):
    return {"constants": True, "elem": draw(st.sampled_from(["uint8", "uint16", "char", "int24"])), "r": draw(st.integers(0, 4)), "mval": draw(st.integers(0, 4)),
            "c": draw(st.integers(0, 5)), "mode": draw(st.sampled_from(["fallback", "clash", "clash", "clash-foldable"])), "define_after": draw(st.booleans()),
            "compiled": draw(st.booleans()), "form": draw(st.sampled_from(["{a} + {b}", "{b} + {a}", "({a}) + {b} * 1", "{a}+{b}"]))}


def _run_const(case, ctx, m):
    """x[expr]: identifiers are looked up in the fields parsed so far first, constants are only the fallback."""
    et, r, mv, c, mode = case["elem"], case["r"], case["mval"], case["c"], case["mode"]
    size = SCALARS[et][1]
    if mode == "fallback":
        define, body, want = f"#define K {c}\n", f"uint8 r; uint8 m; {et} arr[{case['form'].format(a='r', b='K')}]; uint8 tail;", r + c
    elif mode == "clash":
        define, body, want = f"#define m {c}\n", f"uint8 r; uint8 m; {et} arr[{case['form'].format(a='r', b='m')}]; uint8 tail;", r + mv
    else:
        define, body, want = f"#define r {c}\n", f"uint8 r; uint8 m; {et} arr[r]; uint8 tail;", r
    struct = f"struct Root {{ {body} }};\n"
    cs = m.cstruct()
    for part in ([struct, define] if case["define_after"] else [define, struct]):
        res = lib(cs.load, part, compiled=case["compiled"])
        if isinstance(res, Err):
            raise Violation("definition-rejected", f"{part!r}: {res}", res.where)
    data = bytes([r, mv]) + bytes(((i * 5 + 1) & 0x7F) or 1 for i in range(want * size)) + b"\xEE" + bytes(16)
    obj = lib(cs.Root, data)
    what = f"{define.strip()} {'after' if case['define_after'] else 'before'} {struct.strip()} with r={r} m={mv} (compiled={case['compiled']})"
    if isinstance(obj, Err):
        raise Violation("constants:parse-raised", f"{what}: {obj}", obj.where, {"mode": mode, "define_after": case["define_after"]})
    if len(obj.arr) != want or obj.tail != 0xEE:
        raise Violation("constants:wrong-count", f"{what}: {len(obj.arr)} elements (tail {obj.tail:#x}), fields-first resolution gives {want}", info={"mode": mode, "define_after": case["define_after"]})
    ctx.count(f"constants:{mode}:{'after' if case['define_after'] else 'before'}")
    ctx.mark_nontrivial(case)
    ctx.sample({"definition": define + struct, "r": r, "m": mv, "elements": want}, "constants:" + mode)


def _kf_const_fold(case, v):
    return bool(case.get("constants")) and case.get("mode") == "clash-foldable" and not case.get("define_after") and v.kind == "constants:wrong-count"


KNOWN_PREDICATES = {"constant-folded-over-field": _kf_const_fold}


def zero_spelling_cases():
    """x[] over element types in which the value zero has more than one encoding: IEEE-754 negative zero (equal to zero,
    sign bit set). The element that equals zero ends the array whichever way it is spelled."""
    for et, size in (("float16", 2), ("float", 4), ("double", 8)):
        for endian in "<>!":
            for compiled in (False, True):
                for before in (0, 1, 3):
                    for term in ("-0", "+0"):
                        for form in ("field", "standalone", "field-last"):
                            yield {"zero_spellings": True, "elem": et, "size": size, "endian": endian, "compiled": compiled, "before": before, "term": term, "form": form}


def _run_zero_spellings(case, ctx, m):
    import struct as _st

    fmt = ("<" if case["endian"] == "<" else ">") + {"float16": "e", "float": "f", "double": "d"}[case["elem"]]
    vals = [1.5, -2.25, 7.0][: case["before"]]
    enc = b"".join(_st.pack(fmt, v) for v in vals) + _st.pack(fmt, -0.0 if case["term"] == "-0" else 0.0)
    rest = [3.5, 0.0, 9.0]  # what follows the terminator: one more non-zero element, a positive zero, a tail value
    data = enc + b"".join(_st.pack(fmt, v) for v in rest)
    cs = m.cstruct(endian=case["endian"])
    text = {"field": f"struct Root {{ {case['elem']} x[]; {case['elem']} tail; }};", "field-last": f"struct Root {{ uint8 h; {case['elem']} x[]; }};", "standalone": ""}[case["form"]]
    if text:
        r = lib(cs.load, text, compiled=case["compiled"])
        if isinstance(r, Err):
            raise Violation("definition-rejected", f"{text}: {r}", r.where)
    what = f"{case['elem']} x[] ({case['form']}, endian {case['endian']}, compiled={case['compiled']}) over {data.hex()} (terminator {case['term']}.0 after {case['before']} elements)"
    if case["form"] == "field-last":
        data = b"\x07" + data
    s_ = io.BytesIO(data)
    T = cs.Root if text else getattr(cs, case["elem"])[None]
    obj = lib(T, s_)
    if isinstance(obj, Err):
        raise Violation("zero-spelling:raised", f"{what}: {obj}", obj.where)
    got = [float(x) for x in (obj.x if text else obj)]
    want_end = len(enc) + (case["size"] if case["form"] == "field" else 0) + (1 if case["form"] == "field-last" else 0)
    if got != vals or s_.tell() != want_end:
        raise Violation("zero-spelling:array-does-not-stop-at-first-zero", f"{what}: elements {got}, stream at {s_.tell()}; the first element equal to zero is element {case['before']}: expected {vals} and the stream at {want_end}")
    if case["form"] == "field" and obj.tail != 3.5:
        raise Violation("zero-spelling:following-field-shifted", f"{what}: tail {float(obj.tail)}, expected 3.5")
    d = lib(obj.dumps) if text else lib(T.dumps, obj)
    if isinstance(d, Err):
        raise Violation("zero-spelling:dump-raised", f"{what}: {d}", d.where)
    # dumping re-appends a zero element (either spelling of zero is a zero element; the other bytes are reproduced)
    zero_at = (1 if case["form"] == "field-last" else 0) + len(enc) - case["size"]
    if len(d) != want_end or d[:zero_at] != data[:zero_at] or _st.unpack(fmt, d[zero_at : zero_at + case["size"]])[0] != 0 or d[zero_at + case["size"] :] != data[zero_at + case["size"] : want_end]:
        raise Violation("zero-spelling:dump-differs", f"{what}: dumps {d.hex()}, expected {data[:want_end].hex()} (with either zero as the terminator)")
    ctx.count("zero-spelling:" + case["term"] + ":" + case["form"])
    if case["term"] == "-0":
        ctx.mark_nontrivial([case["elem"], case["endian"], case["compiled"], case["before"], case["form"]])
        if case["before"] == 1 and case["endian"] == ">" and case["form"] == "field":
            ctx.sample({"definition": text, "data": data.hex(), "elements": got}, "zero-spelling")


def stages(tier):
    q = tier == "quick"
    return [
        HypStage("constants", const_case, examples=300 if q else 2000, shards=1 if q else 2),
        HypStage("counts", count_case, examples=400 if q else 3000, shards=1 if q else 2),
        HypStage("fields", field_case, examples=1500 if q else 6000, shards=8 if q else 16),
        HypStage("same-tag-elements", twin_case, examples=300 if q else 2500, shards=2),
        HypStage("standalone", standalone_case, examples=1500 if q else 6000, shards=4 if q else 8),
        HypStage("ragged", ragged_case, examples=300 if q else 2000, shards=1 if q else 2),
        HypStage("refuse", refuse_case, examples=400 if q else 3000, shards=2 if q else 4),
        EnumStage("zero-spellings", zero_spelling_cases, shards=1, scope="x[] of float16/float/double x byte order x reader x 0/1/3 elements before the terminator x terminator spelled +0.0 / -0.0 x field (followed by a field / last) / stand-alone"),
    ]
