"""C03 — the compiled reader is observationally equivalent to the interpreted reader (differential)."""
from __future__ import annotations

import io
import itertools

from hypothesis import strategies as st

from pbt import common, gens, libside, refsem
from pbt.drive import EnumStage, Err, HypStage, Violation, import_repo, lib
from pbt.refsem import S

ID = "C03"
RULE = (
    "cases: one generated definition (widest generator: void fields, zero-length and multi-dimensional arrays, enum/flag "
    "bit-fields, struct arrays, pointers and pointer arrays, expression/EOF/null-terminated arrays, nested and anonymous "
    "members, types the generator cannot compile such as LEB128) loaded twice (compiled=True / False) x endian x "
    "packed/aligned x pointer width; inputs = a constructive input with garbage padding, every truncation of it (all cut "
    "points up to 64 bytes, sampled beyond), raw bytes, and the constructive input once more behind 1-9 already consumed "
    "bytes (aligned definitions: that many times the structure's alignment). Oracle: loading compiled never fails where interpreted loads; "
    "equal size/alignment/dynamic/field offsets; per input equal plain values, tell(), recorded sizes of byte-occupying "
    "fields (recursively); outcome asymmetries only as DESIGN §3.11 allows. Exhaustive stage: every ordered triple of 14 "
    "field kinds x {packed, aligned}. Non-trivial = compiled side really compiled, input parsed, >= 2 fields; distinct by "
    "(definition, cfg, input)."
)
ASSUMPTIONS = [
    "the interpreted reader is the reference semantics for this property (it is itself checked against the independent model in C02/C06/C07)",
    "wrapper classes of scalar values are not compared, only values (DESIGN §2.3)",
    "one reader raising EOFError where the other returns is tolerated only when every data-carrying byte was present (missing trailing/inner padding)",
]


@st.composite
def diff_case(draw):
    ptrs = ("uint8", "uint16", "uint32", "uint64")
    case = draw(gens.input_case(gens.opts(long_strings=True, null_structs=True, multidim_dyn=True, bits_char=True, bits_odd=True, wide_bits=True), cfg_kw={"compiled": True, "ptrs": ptrs, "grow": True}))
    case["raw"] = draw(st.binary(max_size=40)).hex()
    return case


@st.composite
def large_case(draw):
    """Wider and deeper definitions than the main search draws (up to 14 members per level, depth 3, fixed counts up to 20)."""
    ptrs = ("uint8", "uint16", "uint32", "uint64")
    case = draw(gens.input_case(gens.opts(max_fields=14, max_depth=3, max_len=20, long_strings=False, null_structs=True, multidim_dyn=True, bits_char=True, bits_odd=True, wide_bits=True), cfg_kw={"compiled": True, "ptrs": ptrs}))
    case["raw"] = draw(st.binary(max_size=40)).hex()
    case["large"] = True
    return case


FIELD_KINDS = [
    ("uint8", S("uint8")), ("uint16", S("uint16")), ("uint32", S("uint32")), ("int64", S("int64")), ("char", S("char")),
    ("wchar", S("wchar")), ("uint24", S("uint24")), ("float", S("float")),
    ("char[3]", {"k": "a", "t": S("char"), "len": ["fixed", 3]}),
    ("uint16[2]", {"k": "a", "t": S("uint16"), "len": ["fixed", 2]}),
    ("uint8[0]", {"k": "a", "t": S("uint8"), "len": ["fixed", 0]}),
    ("struct{uint8;uint16}", {"k": "st", "kind": "struct", "name": None, "fields": [{"name": "p", "t": S("uint8"), "bits": None}, {"name": "q", "t": S("uint16"), "bits": None}]}),
    ("uint8:3", "bits"),
    ("uint8[]", {"k": "a", "t": S("uint8"), "len": ["null"]}),
    ("E8:3", "bits-enum"), ("char:4", "bits-char"), ("uint24:5", "bits-odd"),
]
BIT_KINDS = {"bits": (S("uint8"), 3), "bits-enum": ({"k": "e", "n": "E8"}, 3), "bits-char": (S("char"), 4), "bits-odd": (S("uint24"), 5)}
E8_DEF = {"k": "enumdef", "n": "E8", "kind": "enum", "base": "uint8", "members": [["Z", 0], ["ONE", 1], ["FIVE", 5]]}


def triple_cases():
    pattern = bytes((i * 37 + 11) & 0xFF or 1 for i in range(64))
    for combo in itertools.product(range(len(FIELD_KINDS)), repeat=3):
        for align in (False, True):
            fields = []
            for j, ki in enumerate(combo):
                name, t = FIELD_KINDS[ki]
                if isinstance(t, str):
                    bt, bw = BIT_KINDS[t]
                    fields.append({"name": f"f{j}", "t": bt, "bits": bw})
                else:
                    fields.append({"name": f"f{j}", "t": t, "bits": None})
            defs = [dict(E8_DEF), {"k": "structdef", "n": "Root", "t": {"k": "st", "kind": "struct", "name": None, "fields": fields}}]
            try:
                refsem.Sem(defs, {"endian": "<", "align": align, "ptr": "uint32"}).layout(defs[1]["t"])
            except refsem.DefinitionError:
                continue  # e.g. 3+3+3 bits in one uint8 unit straddle it: rejected by definition (covered in C06)
            yield {
                "defs": defs, "root": "Root",
                "cfg": {"endian": "<" if (sum(combo) % 2 == 0) else ">", "align": align, "ptr": "uint32", "compiled": True},
                "data": pattern.hex(), "consumed": None, "raw": pattern[::-1][:20].hex(),
            }


def _sizes_equal(a, b, path=""):
    """Recorded sizes agree for every field that occupies bytes, recursively through nested structures."""
    m = import_repo()
    from dissect.cstruct.types.structure import UnionProxy

    bad = []
    sa, sb = getattr(a, "_sizes", {}) or {}, getattr(b, "_sizes", {}) or {}
    for k in set(sa) | set(sb):
        if sa.get(k, 0) != sb.get(k, 0):
            bad.append(f"{path}.{k}: compiled {sa.get(k)} interpreted {sb.get(k)}")
    for f in type(a).__fields__:
        va, vb = getattr(a, f._name, None), getattr(b, f._name, None)
        while isinstance(va, UnionProxy):
            va = va.__target__
        while isinstance(vb, UnionProxy):
            vb = vb.__target__
        if isinstance(va, m.Structure) and isinstance(vb, m.Structure):
            bad += _sizes_equal(va, vb, f"{path}.{f._name}")
        elif isinstance(va, list) and isinstance(vb, list):
            stack = [(va, vb, f"{path}.{f._name}")]
            while stack:
                la, lb, pth = stack.pop()
                for i_, (xa, xb) in enumerate(zip(la, lb)):
                    if isinstance(xa, m.Structure) and isinstance(xb, m.Structure):
                        bad += _sizes_equal(xa, xb, f"{pth}[{i_}]")
                    elif isinstance(xa, list) and isinstance(xb, list):
                        stack.append((xa, xb, f"{pth}[{i_}]"))
    return bad


def _layout(T):
    return {
        "size": T.size, "alignment": T.alignment, "dynamic": T.dynamic,
        "offsets": [(n, f.offset, f.bits) for n, f in T.fields.items()],
        "lookup": list(T.lookup),
    }


def _twin_defs(defs):
    """The same definitions with every nested structure that consists of >= 2 plain scalar members declared in reverse
    order: same names, same member count, (in packed mode) same sizes - other types. -> (defs, number of reversals)."""
    import copy

    out = copy.deepcopy(defs)
    changed = [0]

    def visit(t, is_root):
        if t["k"] in ("a", "p"):
            visit(t["t"], False)
        elif t["k"] == "st":
            for f_ in t["fields"]:
                visit(f_["t"], False)
            if not is_root and t["kind"] == "struct" and len(t["fields"]) >= 2 and all(f_["t"]["k"] == "s" and not f_.get("bits") and f_.get("name") for f_ in t["fields"]) and len({f_["t"]["n"] for f_ in t["fields"]}) > 1:
                t["fields"].reverse()
                changed[0] += 1

    for d in out:
        if d["k"] == "structdef":
            visit(d["t"], d["n"] == "Root")
    return out, changed[0]


def run_case(case, ctx):
    m = import_repo()
    # half of the cases load the definitions under the OTHER byte order and switch afterwards: nothing a generated
    # reader fixed at compile time may depend on the endianness (it is configuration read at parse time)
    flip = (len(case["data"]) // 2 + len(case.get("raw", "")) // 2 + len(case["defs"][-1]["t"]["fields"])) % 2 == 1 and case["cfg"]["endian"] in "<>"
    load_cfg = dict(case["cfg"], endian=">" if case["cfg"]["endian"] == "<" else "<") if flip else case["cfg"]
    cs_i = common.load(dict(case, cfg=load_cfg), compiled=False)
    cs_c = lib(libside.load, case["defs"], load_cfg, True)
    if isinstance(cs_c, Err):
        raise Violation("no-fallback", f"compiled=True load raised {cs_c} where compiled=False loads: {common.describe(case)}", cs_c.where)
    if flip:
        cs_i.endian = case["cfg"]["endian"]
        cs_c.endian = case["cfg"]["endian"]
        ctx.count("endian-switched-after-load")
    if not case.get("custom") and "defs" in case:
        # ANOTHER cstruct object compiles same-named, same-shaped definitions whose nested structures are other types: the
        # readers generated for cs_c are its own (nothing generated is shared between objects by name or by source text)
        tw, nrev = _twin_defs(case["defs"])
        if nrev:
            twin = lib(libside.load, tw, load_cfg, True)
            if not isinstance(twin, Err):
                ctx.count("twin-cstruct-with-other-nested-types")
    Ti, Tc = cs_i.Root, cs_c.Root
    li, lc = _layout(Ti), _layout(Tc)
    if li != lc:
        raise Violation("layout-differs", f"compiled {lc} vs interpreted {li}: {common.describe(case)}")
    compiled = bool(getattr(Tc, "__compiled__", False))
    ctx.count("compiled:yes" if compiled else "compiled:fallback")
    if case.get("large"):
        nroot = len(case["defs"][-1]["t"]["fields"])
        ctx.count("large:root-members:" + ("1-4" if nroot <= 4 else "5-8" if nroot <= 8 else "9-14"))
        ctx.count("large:input-bytes:" + ("<64" if len(case["data"]) < 128 else "64-255" if len(case["data"]) < 512 else ">=256"))
    full = bytes.fromhex(case["data"])
    ref = common.reference(case, full)
    last_data = None
    if ref["status"] == "ok":
        idx = [i for i in range(min(len(full), ref["end"])) if ref["mask"][i]]
        last_data = (idx[-1] + 1) if idx else 0
    inputs = [("full", full)]
    L = len(full)
    step = 1 if L <= 64 else (L + 47) // 48
    for k in range(0, L, step):
        inputs.append(("cut", full[:k]))
    if case.get("raw"):
        inputs.append(("raw", bytes.fromhex(case["raw"])))
    # the same bytes behind a header the caller has already consumed (a record in the middle of a file): both readers
    # place the members relative to where the structure starts, whatever that position is
    # (aligned definitions: at a multiple of the structure's alignment. At other positions the two readers of the
    # unchanged tree disagree after a dynamically sized member; that is outside what is claimed, as for C09)
    shift = (1 + (L + len(case["defs"])) % 9) * (max(1, int(Ti.alignment or 1)) if case["cfg"]["align"] else 1)
    inputs.append((f"at-position-{shift}", bytes([0x5A]) * shift + full + bytes(16)))
    parsed = 0
    for kind, data in inputs:
        si, sc = io.BytesIO(data), io.BytesIO(data)
        if kind.startswith("at-position"):
            si.seek(shift)
            sc.seek(shift)
        ri, rc = lib(Ti, si), lib(Tc, sc)
        ei, ec = isinstance(ri, Err), isinstance(rc, Err)
        desc = lambda: common.describe(case, {"input": data.hex(), "input_kind": kind})  # noqa: E731
        if ei and ec:
            ctx.count(f"outcome:{kind.split('-')[0] + '-position' if kind.startswith('at-') else kind}:both-raise")
            continue
        if ei != ec:
            val, err, who = (rc, ri, "interpreted") if ei else (ri, rc, "compiled")
            if err.type == "EOFError":
                if kind == "cut":
                    padding_only = last_data is not None and len(data) >= last_data
                else:
                    r2 = common.reference(case, data)
                    # every data-carrying byte is there, and some trailing/inner padding really is missing
                    padding_only = r2["status"] in ("ok", "noncanonical") and bool(r2.get("padding_beyond_input"))
                if padding_only:
                    ctx.count(f"outcome:{kind}:eof-on-missing-padding-tolerated")
                    continue
            raise Violation(
                "outcome-asymmetry",
                f"{who} reader raised {err} while the other returned {libside.cplain(val)!r}: {desc()}",
                err.where,
                {"who": who, "exc": err.type},
            )
        pi, pc = libside.cplain(ri), libside.cplain(rc)
        if pi != pc:
            raise Violation("values-differ", f"at {common.diff_paths(pc, pi)[:4]}: compiled {pc!r} vs interpreted {pi!r}: {desc()}")
        if si.tell() != sc.tell():
            raise Violation("consumed-differs", f"compiled consumed {sc.tell()}, interpreted {si.tell()}: {desc()}")
        bad = _sizes_equal(rc, ri)
        if bad:
            raise Violation("sizes-differ", f"{bad[:4]}: {desc()}")
        parsed += 1
        kind = kind.split("-")[0] + "-position" if kind.startswith("at-") else kind
        ctx.count(f"outcome:{kind}:both-parse")
    ctx.evaluations += len(inputs) - 1
    feats = common.model_features(ref["sem"], common.ROOT)
    for f in feats:
        if not f.startswith("fields:"):
            ctx.count("has:" + f)
    if case["cfg"]["align"]:
        ctx.count("cfg:aligned")
    src = getattr(getattr(Tc._read, "__func__", None), "__source__", "") if compiled else ""
    if src:
        if "_struct(cls.cs.endian" in src:
            ctx.count("src:struct-block")
        if 'x' in "".join(l for l in src.splitlines() if "_struct(" in l):
            ctx.count("src:padding-in-format")
        if "bit_reader.read" in src:
            ctx.count("src:bit-fields")
        if src.count("stream.seek(") > 1:
            ctx.count("src:seeks")
    nfields = len(ref["sem"].res(common.ROOT)["fields"])
    if compiled and parsed and nfields >= 2:
        ctx.mark_nontrivial([case["defs"], case["cfg"], case["data"]])
        ctx.sample(common.describe(case, {"inputs": len(inputs), "parsed": parsed}), "aligned" if case["cfg"]["align"] else "packed")


CUSTOM_DEF = "struct In {{ uint8 k; offbyone b; }};\nstruct Root {{ uint8 a; {m0} uint32 c; {m1} uint16 d[2]; {m2} uint8 e; }};\n"
CUSTOM_MEMBERS = ["", "offbyone sc;", "offbyone b2[2];", "offbyone b2[2];", "In s;", "In sa[2];", "offbyone m[2][2];", "uint8 n; offbyone dyn[n];", "offbyone *p;", "uint8 f0 : 3; uint8 f1 : 5;"]


@st.composite
def custom_case(draw):
    return {"custom": True, "members": [draw(st.sampled_from(CUSTOM_MEMBERS)) for _ in range(3)], "endian": draw(st.sampled_from("<>")), "align": draw(st.booleans()),
            "data": draw(st.binary(min_size=120, max_size=120)).hex(), "cut": draw(st.integers(0, 119))}


def _run_custom(case, ctx):
    """A type the compiler does not know (a custom BaseType of static size) as scalar, nested member, array element:
    the structure falls back or compiles, but both readers agree."""
    m = import_repo()
    from dissect.cstruct.types import BaseType

    class OffByOne(int, BaseType):
        type = None

        @classmethod
        def _read(cls, stream, context=None):
            return cls(cls.type._read(stream, context) + 1)

        @classmethod
        def _write(cls, stream, data):
            return cls.type._write(stream, data - 1)

    members = []
    for i, mm in enumerate(case["members"]):
        for nm in ("sc", "b2", "s", "sa", "m", "n", "dyn", "p", "f0", "f1"):
            mm = mm.replace(f" {nm}", f" {nm}_{i}").replace(f"[{nm}]", f"[{nm}_{i}]").replace(f"*{nm}", f"*{nm}_{i}")
        members.append(mm)
    text = CUSTOM_DEF.format(m0=members[0], m1=members[1], m2=members[2])
    data = bytearray(bytes.fromhex(case["data"]))
    outs = []
    for compiled in (False, True):
        cs = m.cstruct(endian=case["endian"])
        cs.add_custom_type("offbyone", OffByOne, 8, 8, type=cs.uint64)
        r = lib(cs.load, text, compiled=compiled, align=case["align"])
        if isinstance(r, Err):
            raise Violation("no-fallback", f"compiled={compiled} load raised {r}:\n{text}", r.where)
        T = cs.Root
        res = []
        for inp in (bytes(data), bytes(data[: case["cut"]])):
            s_ = io.BytesIO(inp)
            o = lib(T, s_)
            res.append((("raised", o.type) if isinstance(o, Err) else ("value", libside.cplain(o), dict(getattr(o, "_sizes", {}) or {})), s_.tell() if not isinstance(o, Err) else None))
        outs.append(res)
    if outs[0] != outs[1]:
        raise Violation("values-differ", f"a structure using the custom type 'offbyone' (align={case['align']}, endian {case['endian']}): interpreted {outs[0]!r} vs compiled {outs[1]!r}\n{text}\ndata {bytes(data).hex()} cut {case['cut']}")
    ctx.count("custom:" + ("+".join(sorted({mm.split()[0] + ("[]" if "[" in mm else "") for mm in case["members"] if mm})) or "scalar-only"))
    ctx.mark_nontrivial(case)
    ctx.sample({"definition": text, "align": case["align"]}, "custom")


# ---------------------------------------------------------------- members at explicit (forward) offsets, packed mode

OFFSET_KINDS = ["uint8", "uint16", "uint32", "int64", "uint24", "char3", "In", "bits", "uint16x2"]


@st.composite
def offsets_case(draw):
    n = draw(st.integers(2, 6))
    plan = [[draw(st.sampled_from(OFFSET_KINDS)), draw(st.sampled_from([0, 0, 1, 2, 3, 5, 8]))] for _ in range(n)]
    return {"offsets": True, "plan": plan, "endian": draw(st.sampled_from("<>")), "data": draw(st.binary(min_size=96, max_size=96)).hex(), "batch": draw(st.booleans())}


def _run_offsets(case, ctx):
    """Structures built through the public API with members at explicit forward offsets (gaps) in PACKED mode: the
    compiled reader must seek exactly like the interpreted one; values are also computed directly from the offsets."""
    m = import_repo()
    from dissect.cstruct import compiler

    bo = "little" if case["endian"] == "<" else "big"
    data = bytes.fromhex(case["data"])
    results = []
    for compiled in (False, True):
        cs = m.cstruct(endian=case["endian"])
        cs.load("struct In { uint8 x; uint16 y; };", compiled=compiled)
        T = cs._make_struct("Root", [], align=False)
        if compiled:
            T = compiler.compile(T)
        end = 0
        expect = {}
        adds = []
        for i, (kind, gap) in enumerate(case["plan"]):
            off = end + gap
            nm = f"m{i}"
            if kind == "bits":
                adds.append((nm + "a", cs.uint8, 3, off if gap else None))
                adds.append((nm + "b", cs.uint8, 5, None))
                byte = data[off]
                lo, hi = (byte & 7, byte >> 3) if bo == "little" else (byte >> 5, byte & 31)
                expect[nm + "a"], expect[nm + "b"] = lo, hi
                end = off + 1
                continue
            t, size = {"uint8": (cs.uint8, 1), "uint16": (cs.uint16, 2), "uint32": (cs.uint32, 4), "int64": (cs.int64, 8), "uint24": (cs.uint24, 3), "char3": (cs.char[3], 3), "In": (cs.In, 3), "uint16x2": (cs.uint16[2], 4)}[kind]
            adds.append((nm, t, None, off if gap else None))
            raw = data[off : off + size]
            if kind == "char3":
                expect[nm] = raw
            elif kind == "In":
                expect[nm] = {"x": raw[0], "y": int.from_bytes(raw[1:3], bo)}
            elif kind == "uint16x2":
                expect[nm] = [int.from_bytes(raw[0:2], bo), int.from_bytes(raw[2:4], bo)]
            else:
                expect[nm] = int.from_bytes(raw, bo, signed=kind == "int64")
            end = off + size

        def build():
            if case["batch"]:
                with T.start_update():
                    for nm_, t_, bits_, off_ in adds:
                        T.add_field(nm_, t_, bits=bits_, offset=off_)
            else:
                for nm_, t_, bits_, off_ in adds:
                    T.add_field(nm_, t_, bits=bits_, offset=off_)

        r = lib(build)
        if isinstance(r, Err):
            raise Violation("no-fallback", f"building {case['plan']} (compiled={compiled}) raised {r}", r.where)
        s_ = io.BytesIO(data)
        o = lib(T, s_)
        what = {"plan": case["plan"], "endian": case["endian"], "compiled": compiled, "batch": case["batch"]}
        if isinstance(o, Err):
            raise Violation("outcome-asymmetry", f"{what}: parsing raised {o}", o.where, {"who": "compiled" if compiled else "interpreted", "exc": o.type})
        got = libside.cplain(o)
        if got != refsem.canon(expect) or s_.tell() != end or len(T) != end:
            raise Violation("values-differ", f"{what}: parsed {got!r} (consumed {s_.tell()}, len(T) {len(T)}), the bytes at the declared offsets give {refsem.canon(expect)!r} and the structure ends at {end}")
        d = lib(o.dumps)
        results.append((got, s_.tell(), dict(o._sizes), d if isinstance(d, Err) else d.hex(), bool(getattr(T, "__compiled__", False))))
    if results[0][:4] != results[1][:4]:
        raise Violation("values-differ", f"plan {case['plan']} endian {case['endian']}: interpreted {results[0]!r} vs compiled {results[1]!r}")
    gaps = sum(1 for _, g in case["plan"] if g)
    ctx.count(f"offsets:gaps:{min(gaps, 3)}")
    ctx.count("offsets:compiled" if results[1][4] else "offsets:fell-back")
    if gaps:
        ctx.mark_nontrivial(case)
        ctx.sample({"plan": case["plan"], "endian": case["endian"]}, "offsets")


_run_generated = run_case


def run_case(case, ctx):  # noqa: F811 - dispatch on the case kind
    if case.get("custom"):
        return _run_custom(case, ctx)
    if case.get("offsets"):
        return _run_offsets(case, ctx)
    return _run_generated(case, ctx)


def stages(tier):
    if tier == "quick":
        return [
            HypStage("diff", diff_case, examples=500, shards=10),
            HypStage("large", large_case, examples=120, shards=4),
            HypStage("custom-types", custom_case, examples=300, shards=2),
            HypStage("explicit-offsets", offsets_case, examples=400, shards=2),
            EnumStage("triples", triple_cases, shards=6, scope="every ordered triple of 17 field kinds (incl. enum-, char- and 24-bit-backed bit-fields) x {packed, aligned} (~9800 definitions) x full input, all cut points, one raw input"),
        ]
    return [
        HypStage("diff", diff_case, examples=6000, shards=16),
        HypStage("large", large_case, examples=1500, shards=8),
        HypStage("custom-types", custom_case, examples=6000, shards=4),
        HypStage("explicit-offsets", offsets_case, examples=8000, shards=4),
        EnumStage("triples", triple_cases, shards=8, scope="every ordered triple of 17 field kinds (incl. enum-, char- and 24-bit-backed bit-fields) x {packed, aligned} (~9800 definitions) x full input, all cut points, one raw input"),
    ]
