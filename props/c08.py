"""C08 — truncated or failing input never fabricates data."""
from __future__ import annotations

import io

from hypothesis import strategies as st

from pbt import common, gens, libside, refsem
from pbt.drive import EnumStage, Err, HypStage, Violation, lib
from pbt.faultio import FaultyStream

ID = "C08"
LEVEL = "fault_enumeration"
RULE = (
    "cases: generated definition x configuration x a constructive input; for every case EVERY cut point k < consumed is "
    "parsed (exhaustive per input), and EVERY read call index j of a dry run is hit with three injected faults (short "
    "read delivering part of the requested bytes, empty read, OSError); afterwards the complete input is parsed again "
    "with the same types (residue). Oracle (from the reference mask): k below the last data-carrying byte => must raise, "
    "and the exception must be EOFError; only padding missing => EOFError or the identical value; any value returned "
    "from a shortened or faulty stream equals the full-input value (definitions with x[EOF]: equals the reference decode "
    "of the shortened input); a fault that withheld a data-carrying byte must raise; an injected OSError never yields a "
    "value; the re-parse after all failures equals the first parse. Non-trivial = consumed >= 2 and a cut strictly inside "
    "a multi-byte field or bit-field unit; distinct by (definition, cfg, input). Stage special-counts: records whose array "
    "count is computed from the data and evaluates to each value the reader might use as an internal marker (and its "
    "neighbours), followed by further records: every prefix shorter than the record raises EOFError, every longer one "
    "gives the value of the complete input. Stage pointer-targets: records with pointers read back to back from one "
    "stream; a pointer of the first record is dereferenced while the stream fails (short, empty, OSError) at each read "
    "the dereference makes: it raises (EOFError for a premature end), leaves the stream where it stood, the following "
    "records and a second dereference are unaffected."
)
ASSUMPTIONS = [
    "a short read advances the stream by the delivered bytes only (a parser that ignores it mis-parses and is caught by value comparison)",
    "definitions with x[EOF] members are excluded from fault injection (an empty read *is* their end condition) but included in cut points",
    "which bytes carry data is decided by the independent reference model",
]


@st.composite
def trunc_case(draw):
    o = gens.opts(max_fields=5, max_depth=2, signed_flags=False, null_structs=True)  # signed flags: known finding KF-FLAG, not this property's subject
    return draw(gens.input_case(o, tail=False, cfg_kw={"flip": True}))


def _multi_byte_cut(sem, mask, end):
    return end >= 2


def run_case(case, ctx):
    ref = common.reference(case)
    if ref["status"] != "ok":
        ctx.count("input:" + ref["status"])
        return
    sem, data, mask, end = ref["sem"], ref["data"], ref["mask"], ref["end"]
    data = data[:end] if len(data) > end else data
    cs = common.load(case)
    T = cs.Root
    first = lib(T, io.BytesIO(data))
    if isinstance(first, Err):
        raise Violation("accepted-input-rejected", f"{common.describe(case)} -> {first}", first.where)
    full = libside.cplain(first)
    root = sem.res(common.ROOT)
    eof_def = gens.has_eof(root)
    idx = [i for i in range(min(end, len(mask))) if mask[i]]
    last = (idx[-1] + 1) if idx else 0
    n_parses = 0
    compiled = bool(getattr(T, "__compiled__", False))
    desc = lambda extra: common.describe(case, extra)  # noqa: E731

    # ---- every cut point
    for k in range(0, min(end, len(data))):
        cut = data[:k]
        r = lib(T, io.BytesIO(cut))
        n_parses += 1
        # the documented call form T(<bytes>) must not treat a truncated buffer as anything but input to parse
        rb = lib(T, cut)
        if isinstance(rb, Err) != isinstance(r, Err) or (not isinstance(rb, Err) and libside.cplain(rb) != libside.cplain(r)) or (isinstance(rb, Err) and rb.type != r.type):
            raise Violation("bytes-call-form-differs", f"cut at {k}: T(bytes) gives {rb if isinstance(rb, Err) else libside.cplain(rb)!r}, T(stream) gives {r if isinstance(r, Err) else libside.cplain(r)!r}: {desc({'cut': k})}")
        if end <= 24 or k % 5 == 0 or k >= last - 1:
            for form, call in (("T.read(stream)", lambda: T.read(io.BytesIO(cut))), ("T.read(bytes)", lambda: T.read(cut)), ("T.reads(bytes)", lambda: T.reads(cut)),
                               ("T(bytearray)", lambda: T(bytearray(cut))), ("T(memoryview)", lambda: T(memoryview(cut)))):
                rf = lib(call)
                n_parses += 1
                if isinstance(rf, Err) != isinstance(r, Err) or (isinstance(rf, Err) and rf.type != r.type) or (not isinstance(rf, Err) and libside.cplain(rf) != libside.cplain(r)):
                    raise Violation("bytes-call-form-differs", f"cut at {k}: {form} gives {rf if isinstance(rf, Err) else libside.cplain(rf)!r}, T(stream) gives {r if isinstance(r, Err) else libside.cplain(r)!r}: {desc({'cut': k, 'form': form})}")
        if eof_def:
            ref2 = common.reference(case, cut)
            if ref2["status"] == "short":
                if not isinstance(r, Err):
                    raise Violation("value-from-truncated-input", f"cut at {k}: returned {libside.cplain(r)!r} although a data byte is missing: {desc({'cut': k})}")
                if r.type != "EOFError":
                    raise Violation("wrong-exception-type", f"cut at {k}: premature end raised {r} instead of EOFError: {desc({'cut': k})}", r.where, {"exc": r.type})
            elif ref2["status"] == "ok" and not isinstance(r, Err):
                if libside.cplain(r) != refsem.canon(ref2["want"]):
                    raise Violation("fabricated-value", f"cut at {k}: returned {libside.cplain(r)!r}, the shortened input decodes to {refsem.canon(ref2['want'])!r}: {desc({'cut': k})}")
            ctx.count("cut:eof-definition")
            continue
        if k < last:
            if not isinstance(r, Err):
                raise Violation("value-from-truncated-input", f"cut at {k} (last data byte at {last - 1}): returned {libside.cplain(r)!r}; full input gives {full!r}: {desc({'cut': k})}")
            if r.type != "EOFError":
                raise Violation("wrong-exception-type", f"cut at {k}: premature end raised {r} instead of EOFError: {desc({'cut': k})}", r.where, {"exc": r.type})
            ctx.count("cut:data-missing:EOFError")
        else:
            if isinstance(r, Err):
                if r.type != "EOFError":
                    raise Violation("wrong-exception-type", f"cut at {k} (only padding missing) raised {r}: {desc({'cut': k})}", r.where, {"exc": r.type})
                ctx.count("cut:padding-missing:EOFError")
            else:
                if libside.cplain(r) != full:
                    raise Violation("fabricated-value", f"cut at {k} (only padding missing): returned {libside.cplain(r)!r}, full input gives {full!r}: {desc({'cut': k})}")
                ctx.count("cut:padding-missing:same-value")

    # ---- every read call x three faults
    n_faults = 0
    if not eof_def:
        dry = FaultyStream(data)
        r0 = lib(T, dry)
        if isinstance(r0, Err) or libside.cplain(r0) != full:
            raise Violation("file-like-differs", f"parsing from a plain file-like object gave {r0!r}: {desc({})}")
        calls = list(dry.calls)
        for j, (pos, req, got) in enumerate(calls):
            if not got:
                continue  # zero-byte reads cannot be shortened
            for kind, keep in (("short", got // 2), ("empty", 0), ("raise", 0)):
                fs = FaultyStream(data, fault_at=j, kind=kind, keep=keep)
                r = lib(T, fs)
                n_faults += 1
                what = {"fault": kind, "read_call": j, "at": pos, "requested": req, "delivered": fs.fault[2] if fs.fault else None}
                if kind == "raise":
                    if not isinstance(r, Err):
                        raise Violation("value-despite-stream-error", f"{what}: returned {libside.cplain(r)!r}: {desc(what)}")
                    ctx.count("fault:raise:propagated:" + r.type)
                    continue
                fpos, freq, fgot = fs.fault
                withheld = any(mask[i] for i in range(fpos + fgot, min(fpos + freq, len(mask))))
                if isinstance(r, Err):
                    if r.type != "EOFError" and withheld:
                        raise Violation("wrong-exception-type", f"{what}: premature end raised {r} instead of EOFError: {desc(what)}", r.where, {"exc": r.type})
                    ctx.count(f"fault:{kind}:raised")
                else:
                    if withheld:
                        raise Violation("value-from-short-read", f"{what}: data bytes were withheld but a value came back: {libside.cplain(r)!r} (full: {full!r}): {desc(what)}")
                    if libside.cplain(r) != full:
                        raise Violation("fabricated-value", f"{what}: returned {libside.cplain(r)!r}, full input gives {full!r}: {desc(what)}")
                    ctx.count(f"fault:{kind}:padding-only:same-value")

    # ---- the types of the fixed-size top-level members, called on their own with a shortened span
    lay = sem.layout(root)
    for i, f in enumerate(root["fields"]):
        if f.get("bits") or f.get("name") is None or lay["offs"][i] is None:
            continue
        fsz = sem.size(f["t"])
        if not fsz or lay["offs"][i] + fsz > len(data):
            continue
        F = T.__fields__[i].type
        off = lay["offs"][i]
        span = data[off : off + fsz]
        whole = lib(F, span)
        if isinstance(whole, Err):
            continue
        for j in range(fsz):
            rj = lib(F, span[:j])
            n_parses += 1
            need = any(mask[off + x] for x in range(j, fsz))
            what = {"member_type": F.__name__, "span": span.hex(), "cut": j}
            if isinstance(rj, Err):
                if rj.type != "EOFError":
                    raise Violation("wrong-exception-type", f"{what}: premature end raised {rj} instead of EOFError: {desc(what)}", rj.where, {"exc": rj.type})
            elif need:
                raise Violation("value-from-truncated-input", f"{what}: {F.__name__}(<{j} of {fsz} bytes>) returned {libside.cplain(rj)!r}: {desc(what)}")
            elif libside.cplain(rj) != libside.cplain(whole):
                raise Violation("fabricated-value", f"{what}: returned {libside.cplain(rj)!r}, the complete span gives {libside.cplain(whole)!r}: {desc(what)}")
        ctx.count("member-type-called-directly")

    # ---- residue
    again = lib(T, io.BytesIO(data))
    if isinstance(again, Err) or libside.cplain(again) != full:
        raise Violation("residue", f"after {n_parses} failed parses and {n_faults} faults the complete input parses to {again!r}, first parse gave {full!r}: {desc({})}")
    ctx.evaluations += n_parses + n_faults
    ctx.count("reader:" + ("compiled" if compiled else "interpreted"))
    feats = common.model_features(sem, common.ROOT)
    for f in feats & {"bit-field", "dynamic", "nested-struct", "nested-union", "leb128", "wchar", "array:null", "array:expr", "array:eof", "pointer", "float"}:
        ctx.count("has:" + f)
    multi = any(mask[i] and mask[i + 1] for i in range(min(end, len(mask)) - 1))
    if end >= 2 and multi:
        ctx.mark_nontrivial([case["defs"], case["cfg"], case["data"]])
        ctx.sample(common.describe(case, {"consumed": end, "cuts": n_parses, "faults": n_faults, "last_data_byte": last - 1}), "eof" if eof_def else "std")


def _run_dyn(case, ctx):
    """Dynamically sized unions (members read straight from the stream, then once more as the backing buffer): packed
    templates, so every byte a complete parse touches carries data."""
    from pbt.drive import import_repo

    m = import_repo()
    cs = m.cstruct(endian=case["endian"])
    r = lib(cs.load, case["text"], compiled=case["compiled"])
    if isinstance(r, Err):
        raise Violation("definition-rejected", f"{case['text']}: {r}", r.where)
    T = cs.Root
    data = bytes.fromhex(case["data"])
    dry = FaultyStream(data)
    first = lib(T, dry)
    if isinstance(first, Err):
        ctx.count("dynunion:baseline-raised:" + first.type)
        return
    full = libside.cplain(first)
    calls = list(dry.calls)
    touched = max([pos + got for pos, req, got in calls] or [0])
    what0 = {"definition": case["text"], "data": case["data"], "compiled": case["compiled"]}
    n = 0
    for k in range(touched):
        cut = data[:k]
        for form, call in (("T(stream)", lambda: T(io.BytesIO(cut))), ("T(bytes)", lambda: T(cut))):
            rk = lib(call)
            n += 1
            if not isinstance(rk, Err):
                raise Violation("value-from-truncated-input", f"cut at {k} of {touched} touched bytes, {form}: returned {libside.cplain(rk)!r}; full input gives {full!r}: {dict(what0, cut=k)}")
            if rk.type != "EOFError":
                raise Violation("wrong-exception-type", f"cut at {k}, {form}: premature end raised {rk} instead of EOFError: {dict(what0, cut=k)}", rk.where, {"exc": rk.type})
    for j, (pos, req, got) in enumerate(calls):
        if not got:
            continue
        for kind, keep in (("short", got // 2), ("empty", 0), ("raise", 0)):
            fs = FaultyStream(data, fault_at=j, kind=kind, keep=keep)
            rf = lib(T, fs)
            n += 1
            what = dict(what0, fault=kind, read_call=j, at=pos, requested=req)
            if not isinstance(rf, Err):
                raise Violation("value-despite-stream-error" if kind == "raise" else "value-from-short-read", f"{what}: returned {libside.cplain(rf)!r} (full: {full!r})")
            if kind != "raise" and rf.type != "EOFError":
                raise Violation("wrong-exception-type", f"{what}: premature end raised {rf} instead of EOFError", rf.where, {"exc": rf.type})
    again = lib(T, io.BytesIO(data))
    if isinstance(again, Err) or libside.cplain(again) != full:
        raise Violation("residue", f"after {n} failed parses the complete input parses to {again!r}, first parse gave {full!r}: {what0}")
    ctx.evaluations += n
    ctx.count("dynunion:checked")
    if touched >= 3:
        ctx.mark_nontrivial(case)
        ctx.sample(dict(what0, touched=touched, read_calls=len(calls)), "dynunion")


# counts a complete parse computes from the data, including every value the reader might use as an internal marker
SPECIAL_COUNTS = [-1, -2, -0xE0F, -0xE0F + 1, -0xE0F - 1, -128, -256, -32768, 0, 1, 3]
COUNT_ELEMS = {"uint8": 1, "uint16": 2, "char": 1, "wchar": 2, "int24": 3, "E": 2, "S": 3}
COUNT_FORMS = {"n": 0, "n + 1": 1, "n - 2": -2, "n * 1": 0}


def count_cases():
    for n in SPECIAL_COUNTS:
        for et in COUNT_ELEMS:
            for form, delta in COUNT_FORMS.items():
                if not -32768 <= n - delta <= 32767:
                    continue
                for compiled in (False, True):
                    for endian in "<>":
                        yield {"counts": True, "count": n, "elem": et, "form": form, "compiled": compiled, "endian": endian}


def _run_counts(case, ctx):
    """struct Root { int16 n; T data[<form of n>]; uint16 tail; } followed by further records in the same stream: the
    count evaluates to case['count']; the value needs 2 + max(0, count) * sizeof(T) + 2 bytes, every shorter prefix
    raises EOFError, every longer one gives the value of the complete input and leaves the stream behind the record."""
    from pbt.drive import import_repo

    m = import_repo()
    et, form, want = case["elem"], case["form"], max(0, case["count"])
    n = case["count"] - COUNT_FORMS[form]
    esize = COUNT_ELEMS[et]
    cs = m.cstruct(endian=case["endian"])
    text = "enum E : uint16 { A = 1, B = 2 };\nstruct S { uint8 a; uint16 b; };\n" + f"struct Root {{ int16 n; {et} data[{form}]; uint16 tail; }};\n"
    r = lib(cs.load, text, compiled=case["compiled"])
    if isinstance(r, Err):
        raise Violation("definition-rejected", f"{text}: {r}", r.where)
    T = cs.Root
    order = "little" if case["endian"] == "<" else "big"
    body = b"".join((0x41 + i).to_bytes(2, order) if et == "wchar" else bytes([0x41 + i] * esize) for i in range(want))
    need = 2 + len(body) + 2
    data = n.to_bytes(2, order, signed=True) + body + b"\xEE\xEE" + b"\x01\x00\x00\x01" * 3  # further records follow in the same stream
    what0 = {"definition": f"int16 n; {et} data[{form}]; uint16 tail;", "n": n, "count": case["count"], "data": data.hex(), "compiled": case["compiled"], "endian": case["endian"]}
    s = io.BytesIO(data)
    first = lib(T, s)
    if isinstance(first, Err):
        raise Violation("accepted-input-rejected", f"{what0} -> {first}", first.where)
    full = libside.cplain(first)
    if len(first.data) != want or first.tail != 0xEEEE or s.tell() != need:
        raise Violation("fabricated-value", f"{what0}: the complete input gives {full!r} and leaves the stream at {s.tell()}; the record is {need} bytes with {want} elements")
    np_ = 0
    for k in range(len(data)):
        cut = data[:k]
        for fname, call in (("T(stream)", lambda: T(io.BytesIO(cut))), ("T(bytes)", lambda: T(cut))):
            rk = lib(call)
            np_ += 1
            what = dict(what0, cut=k, form=fname)
            if k < need:
                if not isinstance(rk, Err):
                    raise Violation("value-from-truncated-input", f"cut at {k} of a {need}-byte record: returned {libside.cplain(rk)!r}; full input gives {full!r}: {what}")
                if rk.type != "EOFError":
                    raise Violation("wrong-exception-type", f"cut at {k}: premature end raised {rk} instead of EOFError: {what}", rk.where, {"exc": rk.type})
            elif isinstance(rk, Err) or libside.cplain(rk) != full:
                raise Violation("fabricated-value", f"{k} bytes (the record is {need}): gave {rk if isinstance(rk, Err) else libside.cplain(rk)!r}, the complete input gives {full!r}: {what}")
    ctx.evaluations += np_
    ctx.count("special-count:" + ("sentinel" if case["count"] == -0xE0F else "negative" if case["count"] < 0 else "non-negative"))
    ctx.mark_nontrivial(case)
    if case["count"] in (-0xE0F, -1, 3):
        ctx.sample(dict(what0, record_bytes=need, cuts=np_), "special-count")


# ---------------------------------------------------------------- failing reads behind a pointer

PTR_DEF = "struct In { uint8 z; uint16 *q; };\nstruct Tgt { uint16 a; uint8 b[3]; };\nstruct Root { uint8 id; uint16 *p; char *s; In in; Tgt *t; uint32 *far; };\n"


@st.composite
def ptr_case(draw):
    return {"ptrs": True, "ptr": draw(st.sampled_from(["uint16", "uint32", "uint64"])), "endian": draw(st.sampled_from("<>")), "compiled": draw(st.booleans()),
            "strlen": draw(st.integers(0, 6)), "vals": draw(st.binary(min_size=12, max_size=12)).hex(), "records": draw(st.integers(1, 3))}


def _run_ptrs(case, ctx):
    """Records holding pointers are read one after the other from ONE stream; in between, a pointer of the record just
    read is dereferenced while the stream fails (short, empty, OSError) at each of the reads the dereference makes. A
    failed dereference raises, leaves the stream where it stood, and neither the next record nor a later dereference of
    the same target is affected."""
    from pbt.drive import import_repo

    m = import_repo()
    w = {"uint16": 2, "uint32": 4, "uint64": 8}[case["ptr"]]
    bo = "little" if case["endian"] == "<" else "big"
    cs = m.cstruct(endian=case["endian"], pointer=case["ptr"])
    r0 = lib(cs.load, PTR_DEF, compiled=case["compiled"])
    if isinstance(r0, Err):
        raise Violation("definition-rejected", f"{r0}", r0.where)
    vals = bytes.fromhex(case["vals"])
    nrec = case["records"]
    rsize = 1 + w + w + 1 + w + w + w
    heap0 = nrec * rsize
    v1 = int.from_bytes(vals[0:2], bo) | 1
    v2 = int.from_bytes(vals[2:4], bo) | 2
    sbytes = bytes((vals[4] + 3 * i) % 200 + 1 for i in range(case["strlen"])) + b"\x00"
    tgt = vals[5:7] + vals[7:10]
    a1, a2 = heap0, heap0 + 2
    a3 = heap0 + 4
    a4 = a3 + len(sbytes)
    end = a4 + len(tgt)
    P = lambda a: a.to_bytes(w, bo)  # noqa: E731
    recs = [bytes([0x10 + i]) + P(a1) + P(a3) + bytes([0x20 + i]) + P(a2) + P(a4) + P(end - 2) for i in range(nrec)]
    image = b"".join(recs) + v1.to_bytes(2, bo) + v2.to_bytes(2, bo) + sbytes + tgt
    assert len(image) == end
    want = {"p": v1, "s": sbytes[:-1], "in.q": v2, "t": {"a": int.from_bytes(tgt[0:2], bo), "b": list(tgt[2:5])}}
    getters = {"p": lambda o: o.p, "s": lambda o: o.s, "in.q": lambda o: getattr(o, "in").q, "t": lambda o: o.t, "far": lambda o: o.far}
    what0 = {"definition": PTR_DEF, "ptr": case["ptr"], "endian": case["endian"], "compiled": case["compiled"], "image": image.hex(), "records": nrec}
    n = 0
    for label, get in getters.items():
        for kind in ("raise", "short", "empty"):
            j = 0
            while True:
                fs = FaultyStream(image)
                objs = []
                failed_at = None
                for i in range(nrec):
                    o = lib(cs.Root, fs)
                    if isinstance(o, Err) or o.id != 0x10 + i or getattr(o, "in").z != 0x20 + i:
                        raise Violation("residue", f"record {i} read from the shared stream after a failed dereference in record {failed_at}: {o if isinstance(o, Err) else libside.cplain(o)!r}, expected id {0x10 + i:#x}: {dict(what0, pointer=label, fault=kind, read_call_of_dereference=j)}")
                    objs.append(o)
                    if i == 0:
                        before = fs.tell()
                        fs.fault_at, fs.kind, fs.keep = len(fs.calls) + j, kind, 1
                        rd = lib(get(o).dereference)
                        hit = fs.fault is not None
                        fs.fault_at = None
                        n += 1
                        what = dict(what0, pointer=label, fault=kind, read_call_of_dereference=j)
                        if hit and kind == "raise" and not isinstance(rd, Err):
                            raise Violation("value-despite-stream-error", f"{what}: dereference returned {libside.cplain(rd)!r}")
                        if hit and label != "far" and not isinstance(rd, Err) and libside.cplain(rd) != want[label]:
                            raise Violation("fabricated-value", f"{what}: dereference returned {libside.cplain(rd)!r}, the target is {want[label]!r}")
                        if label == "far" and not isinstance(rd, Err):
                            raise Violation("value-from-truncated-input", f"{what}: a uint32 target with two bytes left in the stream gave {rd!r}")
                        if isinstance(rd, Err) and kind != "raise" and rd.type != "EOFError":
                            raise Violation("wrong-exception-type", f"{what}: premature end raised {rd} instead of EOFError", rd.where, {"exc": rd.type})
                        if fs.tell() != before:
                            raise Violation("residue", f"{what}: the dereference {'failed with ' + str(rd) if isinstance(rd, Err) else 'returned'} and moved the stream from {before} to {fs.tell()}")
                        if isinstance(rd, Err):
                            failed_at = 0
                            ctx.count(f"pointer-target:{kind}:raised:{rd.type}")
                            if label != "far":
                                again = lib(get(o).dereference)
                                if isinstance(again, Err) or libside.cplain(again) != want[label] or fs.tell() != before:
                                    raise Violation("residue", f"{what}: after the failed dereference a second one gave {again if isinstance(again, Err) else libside.cplain(again)!r} (stream at {fs.tell()}, was {before}), the target is {want[label]!r}")
                if not hit:
                    break
                j += 1
    ctx.evaluations += n
    ctx.mark_nontrivial(case)
    ctx.sample(dict(what0, dereferences_under_fault=n), "pointer-targets")


_run_static = run_case


def run_case(case, ctx):  # noqa: F811 - dispatch on the case kind
    if case.get("dynunion"):
        return _run_dyn(case, ctx)
    if case.get("counts"):
        return _run_counts(case, ctx)
    if case.get("ptrs"):
        return _run_ptrs(case, ctx)
    return _run_static(case, ctx)


def stages(tier):
    from props.c09 import dynunion_case

    q = tier == "quick"
    return [
        HypStage("cuts+faults", trunc_case, examples=600 if q else 8000, shards=10 if q else 16),
        HypStage("dynamic-unions", dynunion_case, examples=300 if q else 3000, shards=2 if q else 4),
        HypStage("pointer-targets", ptr_case, examples=150 if q else 2000, shards=2 if q else 4),
        EnumStage("special-counts", count_cases, shards=2, scope="11 count values (internal markers and their neighbours) x 7 element types x 4 expression forms x both readers x both byte orders, every cut"),
    ]
