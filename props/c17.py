"""C17 — structure values: field-wise equality, consistent hash/bool, local assignment."""
from __future__ import annotations

import copy
import io

from hypothesis import strategies as st

from pbt import common, gens, libside, refsem
from pbt.drive import EnumStage, Err, HarnessError, HypStage, Violation, import_repo, lib
from pbt.refsem import S, Sem, fkey

ID = "C17"
RULE = (
    "cases: generated fixed-size structures with 0-12 fields (hazard names, bit-fields, arrays, nested and anonymous "
    "members, enums, pointers); next to each Root two sibling classes are alive in the same process - Rev (same names, "
    "reversed order) and Other (same types, different names) - because the method templates are cached per field count; "
    "instance pairs equal by construction, differing in exactly one field (first / middle / last) and equal values in a "
    "different class; constructor calls with a generated split into positional and keyword arguments; single-field "
    "assignments (top-level, bit-field, nested path, field of an anonymous member). Oracle: a == b <=> same class and all "
    "fields equal; equal => equal hash (TypeError accepted for unhashable field values); bool(a) <=> any field truthy; "
    "T(*pos, **kw) == default instance + setattr, unspecified fields = reference zero value; dumps() before and after an "
    "assignment equal the reference encodings of the old and new value tree (so only the assigned field's bytes change). "
    "Exhaustive stages: field counts 0..12 x 3 name orders; a scalar char member given each of the 256 values as bytes, "
    "int and str by assignment and by keyword (only its byte changes in the dump). Non-trivial = >= 3 fields with siblings of equal count alive, "
    "pair differing only in the last field; distinct by (definition, cfg, values, choice)."
)
ASSUMPTIONS = [
    "structures here are fixed-size and, outside the through-unions stage, union-free (coherence of unions is C11's subject; through-unions looks at truth / == / hash of structure values reached through a union against the value computed from the reference); field truthiness is Python truthiness of the field value, as the generated method uses",
    "keyword arguments address direct members (an anonymous member is one positional/keyword slot under its type name)",
]


@st.composite
def value_case(draw):
    o = gens.opts(dynamic=False, unions=False, max_fields=12, max_depth=1, signed_flags=False, zero_len=True, bits_weight=4,
                  arrays=draw(st.booleans()), anon_weight=draw(st.sampled_from([1, 4])), anon_nested=draw(st.booleans()))
    case = draw(gens.input_case(o, tail=False, cfg_kw={"flip": True}))
    root = [d for d in case["defs"] if d["n"] == "Root"][0]["t"]
    n = len(root["fields"])
    case["which"] = draw(st.sampled_from(["first", "middle", "last", "last"]))
    case["npos"] = draw(st.integers(0, n))
    case["kwmask"] = draw(st.integers(0, (1 << max(n, 1)) - 1))
    case["assign"] = draw(st.integers(0, 10_000))
    case["alt"] = draw(st.binary(min_size=8, max_size=8)).hex()
    return case


def count_cases():
    types = [S("uint8"), S("int16"), S("uint32"), S("char"), {"k": "a", "t": S("uint8"), "len": ["fixed", 2]}]
    for n in range(0, 13):
        for order in range(3):
            names = [f"n{i}" for i in range(n)]
            if order == 1:
                names = names[::-1]
            elif order == 2:
                names = names[1::2] + names[0::2]
            fields = [{"name": nm, "t": types[(i + order) % len(types)], "bits": None} for i, nm in enumerate(names)]
            defs = [{"k": "structdef", "n": "Root", "t": {"k": "st", "kind": "struct", "name": None, "fields": fields}}]
            sem = Sem(defs, {"endian": "<", "align": False, "ptr": "uint32"})
            size = sem.size(common.ROOT)
            data = bytes(((i * 7 + order + 1) & 0xFF) or 1 for i in range(size))
            yield {"defs": defs, "root": "Root", "cfg": {"endian": "<", "align": False, "ptr": "uint32", "compiled": bool(n % 2)}, "data": data.hex(),
                   "which": ["first", "middle", "last"][order], "npos": n // 2, "kwmask": (1 << n) - 1 if order else 0x555, "assign": n + order, "alt": "0102030405060708"}


def wide_cases():
    """Field counts around the points where CPython changes how it builds tuples and indexes names (30..32, 255..257),
    all members hashable."""
    for n in (13, 30, 31, 32, 33, 64, 129, 255, 256, 257, 300):
        fields = [{"name": f"w{i}", "t": S("uint8" if i % 3 else "uint16"), "bits": None} for i in range(n)]
        defs = [{"k": "structdef", "n": "Root", "t": {"k": "st", "kind": "struct", "name": None, "fields": fields}}]
        for compiled in (False, True):
            yield {"wide": True, "defs": defs, "root": "Root", "n": n, "cfg": {"endian": "<", "align": False, "ptr": "uint32", "compiled": compiled}}


def char_cases():
    """Every value a scalar char member can be given, in each of the spellings the writer accepts (bytes, int, str)."""
    for code in range(256):
        for form in ("bytes", "int", "str"):
            for how in ("assign", "keyword", "assign-on-parsed"):
                yield {"charform": True, "code": code, "form": form, "how": how, "compiled": code % 2 == 0, "endian": "<>"[(code // 2) % 2]}


def _run_charform(case, ctx):
    m = import_repo()
    cs = m.cstruct(endian=case["endian"])
    r = lib(cs.load, "struct Root { uint8 a; char c; uint16 b; char t[2]; };", compiled=case["compiled"])
    if isinstance(r, Err):
        raise Violation("definition-rejected", f"{r}", r.where)
    code, form = case["code"], case["form"]
    val = bytes([code]) if form == "bytes" else code if form == "int" else chr(code)
    b16 = (0x1234).to_bytes(2, "little" if case["endian"] == "<" else "big")
    before = bytes([7, 0x41]) + b16 + b"xy"
    expect = bytes([7, code]) + b16 + b"xy"
    if case["how"] == "keyword":
        obj = lib(lambda: cs.Root(a=7, c=val, b=0x1234, t=b"xy"))
    else:
        obj = lib(cs.Root, before) if case["how"] == "assign-on-parsed" else lib(lambda: cs.Root(a=7, c=b"A", b=0x1234, t=b"xy"))
        if not isinstance(obj, Err):
            d0 = lib(obj.dumps)
            if isinstance(d0, Err) or d0 != before:
                raise Violation("assignment-not-local", f"before the assignment dumps gives {d0!r}, expected {before.hex()}")
            r = lib(setattr, obj, "c", val)
            if isinstance(r, Err):
                raise Violation("assignment-raised", f"c = {val!r}: {r}", r.where)
    if isinstance(obj, Err):
        raise Violation("constructor-raised", f"Root(a=7, c={val!r}, ...): {obj}", obj.where)
    d = lib(obj.dumps)
    what = {"definition": "struct Root { uint8 a; char c; uint16 b; char t[2]; }", "c": repr(val), "how": case["how"], "compiled": case["compiled"], "endian": case["endian"]}
    if isinstance(d, Err):
        raise Violation("assignment-not-local", f"{what}: dumps raised {d}", d.where)
    if d != expect:
        changed = [i for i in range(max(len(d), len(before))) if d[i : i + 1] != before[i : i + 1]]
        raise Violation("assignment-not-local", f"{what}: dumps {d.hex()} ({len(d)} bytes), expected {expect.hex()}: bytes {changed} differ from the dump before, only byte 1 is the member's")
    ctx.count(f"char-member:{form}:{'high' if code >= 0x80 else 'ascii'}")
    ctx.mark_nontrivial(case)
    if code in (0, 0x41, 0x80, 0xE9, 0xFF):
        ctx.sample(what, "char-member")


def _run_wide(case, ctx):
    cs = common.load(case)
    T = cs.Root
    n = case["n"]
    names = [f"w{i}" for i in range(n)]
    vals = [(i * 7 + 3) % 251 + 1 for i in range(n)]
    a = lib(lambda: T(**dict(zip(names, vals))))
    b = lib(lambda: T(*vals))
    if isinstance(a, Err) or isinstance(b, Err):
        raise Violation("construction-raised", f"{n} fields: keyword {a!r} / positional {b!r}", getattr(a, "where", ""))
    if lib(lambda: a == b) is not True or lib(hash, a) != lib(hash, b) or lib(hash, a) != hash(tuple(vals)):
        raise Violation("equal-instances-hash-differently", f"{n} fields: keyword- and positionally built instances: == {lib(lambda: a == b)!r}, hashes {lib(hash, a)!r} / {lib(hash, b)!r} / tuple {hash(tuple(vals))}")
    for j in sorted({0, 1, n // 2, 29, 30, 31, 32, 254, 255, 256, n - 2, n - 1} & set(range(n))):
        # differing only in field j; truthy only in field j
        v2 = list(vals)
        v2[j] ^= 1
        c = T(*v2)
        if lib(lambda: a == c) is not False or lib(lambda: a != c) is not True:
            raise Violation("unequal-instances-equal", f"{n} fields: instances differing only in field #{j} compare equal")
        z = T()
        if lib(bool, z) is not False:
            raise Violation("bool-inconsistent", f"{n} fields: bool(T()) is not False")
        setattr(z, names[j], 1)
        if lib(bool, z) is not True:
            raise Violation("bool-inconsistent", f"{n} fields: only field #{j} is non-zero but bool() is {lib(bool, z)!r}")
        d0 = T(*vals).dumps()
        y = T(*vals)
        setattr(y, names[j], vals[j] ^ 1)
        d1 = y.dumps()
        changed = [i for i in range(len(d0)) if d0[i] != d1[i]]
        off = sum(1 if i % 3 else 2 for i in range(j))
        if changed != [off]:
            raise Violation("assignment-not-local", f"{n} fields: assigning field #{j} changed bytes {changed}, expected [{off}]")
    ctx.count(f"wide:{n}")
    ctx.mark_nontrivial([n, case["cfg"]["compiled"]])
    ctx.sample({"fields": n, "compiled": case["cfg"]["compiled"]}, "wide")


def _siblings(defs):
    """Rev: same names, reversed order. Other: same types, other names."""
    root = [d for d in defs if d["n"] == "Root"][0]["t"]
    rev = copy.deepcopy(root)
    rev["fields"] = rev["fields"][::-1]
    other = copy.deepcopy(root)
    for i, f in enumerate(other["fields"]):
        if f.get("name") is not None:
            f["name"] = f"o{i}_{f['name']}"[:20]
    # bit-field runs reversed may straddle: Rev is only used when the reference accepts it
    return rev, other


def _mutate_leaf(sem, t, v, alt):
    """A different value of the same type (for 'differ in exactly one field')."""
    t = sem.res(t)
    k = t["k"]
    if k == "st":
        for i, f in enumerate(t["fields"]):
            key = fkey(f, i)
            if f.get("bits"):
                out = dict(v)
                out[key] = v[key] ^ 1
                return out
            nv = _mutate_leaf(sem, f["t"], v[key], alt)
            if nv is not None:
                out = dict(v)
                out[key] = nv
                return out
        return None
    if k == "a":
        if isinstance(v, bytes):
            return bytes([v[0] ^ 0x21]) + v[1:] if v else None
        if isinstance(v, str):
            if not v:
                return None
            if ord(v[0]) > 0xFFFF:  # a surrogate pair is two units: keep the unit count of a fixed wchar array
                return "bc" + v[1:]
            return ("b" if v[0] != "b" else "c") + v[1:]
        if not v:
            return None
        nv = _mutate_leaf(sem, t["t"], v[0], alt)
        return None if nv is None else [nv] + list(v[1:])
    if k in ("e", "p"):
        return v ^ 1
    c = refsem.SCALARS[t["n"]][0]
    if c == "int":
        return v ^ 1
    if c == "float":
        return 1.5 if v != 1.5 else 2.5
    if c == "char":
        return bytes([v[0] ^ 0x21])
    if c == "wchar":
        return "b" if v != "b" else "c"
    if c == "leb":
        return v + 1
    return None  # void


def _field_truthy(v):
    return bool(v)


def _twin(sem, t, v):
    """A value equal (==) to v at every field but not identical: 0.0 <-> -0.0 in one float field, or None."""
    t = sem.res(t)
    if t["k"] != "st":
        return None
    for i, f in enumerate(t["fields"]):
        ft = sem.res(f["t"])
        key = fkey(f, i)
        if not f.get("bits") and ft["k"] == "s" and refsem.SCALARS[ft["n"]][0] == "float" and v[key] == 0.0:
            out = dict(v)
            out[key] = -v[key] if str(v[key]) == "0.0" else 0.0
            return out
    return None


@st.composite
def through_union_case(draw):
    """Structure VALUES that are reached through a union (member of a union, element of an array inside a union, union
    inside a structure / an array): they are structure instances like any other, so truth, equality and hash follow
    the same rules. Inputs are mostly zero so that falsy instances are common."""
    plain_ints = draw(st.booleans())
    o = gens.opts(dynamic=False, wchar=False, void=False, signed_flags=False, floats=False, max_fields=4, max_depth=2, hazard=False, anon=False, zero_len=False,
                  bits=draw(st.booleans()), char=not plain_ints, arrays=not plain_ints or draw(st.booleans()), pointers=draw(st.booleans()), struct_weight=5, bits_weight=2)
    cfg = draw(gens.config())
    names = gens.NameSrc(False)
    defs = []
    u = draw(gens.struct_type(o, defs, names, 2, kind="union", name=None))
    form = draw(st.sampled_from(["top", "member", "array"]))
    if form == "member":
        root = {"k": "st", "kind": "struct", "name": None, "fields": [{"name": "pre", "t": S("uint8"), "bits": None}, {"name": "u", "t": u, "bits": None}, {"name": "post", "t": S("uint16"), "bits": None}]}
    elif form == "array":
        root = {"k": "st", "kind": "struct", "name": None, "fields": [{"name": "us", "t": {"k": "a", "t": u, "len": ["fixed", 2]}, "bits": None}]}
    else:
        root = u
    defs.append({"k": "structdef", "n": "Root", "t": root})
    size = Sem(defs, cfg).size(gens.ROOT)
    kind = draw(st.sampled_from(["zero", "zero", "sparse", "sparse", "random"]))
    data = bytearray(size)
    if kind == "sparse" and size:
        for _ in range(draw(st.integers(1, 3))):
            data[draw(st.integers(0, size - 1))] = draw(st.sampled_from([1, 0x80, 0xFF, 7]))
    elif kind == "random":
        data = bytearray(draw(st.binary(min_size=size, max_size=size)))
    return {"through_unions": True, "defs": defs, "root": "Root", "cfg": cfg, "data": bytes(data).hex(), "form": form, "fill": kind}


def _real_type(v):
    """Class of a structure value, looking through the proxy a union hands out for its structure members."""
    while type(v).__name__ == "UnionProxy":
        v = v.__target__
    return type(v)


def _ref_truth(p):
    """Truth of a canonical plain value by the rule of the statement: a structure / union is truthy iff one of its
    fields is; a field value has Python's truth (non-zero number, non-empty list / bytes / str)."""
    if isinstance(p, dict):
        return any(_ref_truth(v) for v in p.values())
    if isinstance(p, (list, tuple, bytes, str)):
        return len(p) > 0
    if p is None:
        return False
    return p != 0


def _run_through_unions(case, ctx):
    m = import_repo()
    sem = Sem(case["defs"], case["cfg"])
    cs = common.load(case)
    data = bytes.fromhex(case["data"])
    a, b = lib(cs.Root, data), lib(cs.Root, data)
    if isinstance(a, Err) or isinstance(b, Err):
        raise Violation("parse-raised", f"{common.describe(case)} -> {a!r}", getattr(a, "where", ""))
    desc = lambda: common.describe(case)  # noqa: E731
    stats = {"nodes": 0, "falsy": 0, "via_union": 0, "falsy_via_union": 0}

    def walk(t, x, y, path, via_union):
        t = sem.res(t)
        if t["k"] == "a":
            if sem.res(t["t"])["k"] in ("st", "a") and isinstance(x, list):
                for i, (xe, ye) in enumerate(zip(x, y)):
                    walk(t["t"], xe, ye, f"{path}[{i}]", via_union)
            return
        if t["k"] != "st":
            return
        p = libside.plain(x)
        want = _ref_truth(p)
        got = lib(bool, x)
        stats["nodes"] += 1
        stats["via_union"] += via_union
        if not want:
            stats["falsy"] += 1
            stats["falsy_via_union"] += via_union
        if got is not want:
            raise Violation("bool-inconsistent", f"bool({path}) is {got!r}; its value is {p!r}, so 'some field is truthy' is {want}: {desc()}")
        if lib(lambda: not x) is not (not want):
            raise Violation("bool-inconsistent", f"'not {path}' is {lib(lambda: not x)!r} although bool() is {got!r}: {desc()}")
        e1, e2, ne = lib(lambda: x == y), lib(lambda: y == x), lib(lambda: x != y)
        if e1 is not True or e2 is not True or ne is not False:
            raise Violation("eq-inconsistent", f"{path} of two parses of the same bytes: == {e1!r} / {e2!r}, != {ne!r}; value {p!r}: {desc()}")
        h1, h2 = lib(hash, x), lib(hash, y)
        if isinstance(h1, Err) != isinstance(h2, Err) or (isinstance(h1, Err) and h1.type != "TypeError") or (not isinstance(h1, Err) and h1 != h2):
            raise Violation("hash-inconsistent", f"hash({path}) of two equal instances: {h1!r} vs {h2!r}: {desc()}")
        inside = via_union or t["kind"] == "union"
        for i, f_ in enumerate(t["fields"]):
            if f_.get("name") is None:
                continue
            lf = type(x).__fields__[i] if hasattr(type(x), "__fields__") else None
            nm = lf._name if lf is not None else f_["name"]
            walk(f_["t"], getattr(x, nm), getattr(y, nm), f"{path}.{f_['name']}", 1 if inside else 0)

    walk(common.ROOT, a, b, "obj", 0)
    # the same declaration under another name is another type: equal bytes / equal fields do not make its values equal
    rootdef = [d for d in case["defs"] if d["n"] == "Root"][0]
    r2 = lib(cs.load, libside.render_def(dict(rootdef, n="Root2")), compiled=case["cfg"]["compiled"], align=bool(case["cfg"]["align"]))
    if isinstance(r2, Err):
        raise Violation("definition-rejected", f"the same declaration under the name Root2: {r2}: {desc()}", r2.where)
    o = lib(cs.Root2, data)
    if isinstance(o, Err):
        raise Violation("parse-raised", f"Root2 (same declaration as Root) {desc()} -> {o!r}", o.where)

    def cross(t, x, y, path):
        t = sem.res(t)
        if t["k"] == "a":
            if sem.res(t["t"])["k"] == "st" and isinstance(x, list) and x:
                cross(t["t"], x[0], y[0], path + "[0]")
            return
        if t["k"] != "st":
            return
        if _real_type(x) is not _real_type(y):
            e1, e2, ne = lib(lambda: x == y), lib(lambda: y == x), lib(lambda: x != y)
            if e1 is not False or e2 is not False or ne is not True:
                raise Violation("eq-across-types", f"{path}: a {_real_type(x).__name__} and a {_real_type(y).__name__} (same declaration, different types, same bytes): == {e1!r} / {e2!r}, != {ne!r}: {desc()}")
            ctx.count("through-unions:cross-type-comparisons:" + t["kind"])
        for i, f_ in enumerate(t["fields"]):
            if f_.get("name") is None or f_["t"]["k"] not in ("st", "a"):
                continue  # named types (ref) are shared between Root and Root2: the same type
            nm = _real_type(x).__fields__[i]._name
            cross(f_["t"], getattr(x, nm), getattr(y, nm), f"{path}.{f_['name']}")

    cross(common.ROOT, a, o, "obj")
    ctx.count("through-unions:form:" + case["form"])
    ctx.count("through-unions:fill:" + case["fill"])
    ctx.count("through-unions:structure-values", stats["nodes"])
    ctx.count("through-unions:structure-values-reached-through-a-union", stats["via_union"])
    ctx.count("through-unions:falsy-values-reached-through-a-union", stats["falsy_via_union"])
    if stats["via_union"]:
        ctx.mark_nontrivial([case["defs"], case["cfg"], case["data"]])
        if stats["falsy_via_union"]:
            ctx.sample(dict(desc(), falsy_values_through_union=stats["falsy_via_union"]), "through-unions")


def run_case(case, ctx):
    if case.get("wide"):
        return _run_wide(case, ctx)
    if case.get("charform"):
        return _run_charform(case, ctx)
    if case.get("through_unions"):
        return _run_through_unions(case, ctx)
    m = import_repo()
    ref = common.reference(case)
    if ref["status"] != "ok":
        ctx.count("input:" + ref["status"])
        return
    sem, want = ref["sem"], ref["want"]
    root = sem.res(common.ROOT)
    nfields = len(root["fields"])
    rev, other = _siblings(case["defs"])
    defs = [d for d in case["defs"]]
    extra = [{"k": "structdef", "n": "Other", "t": other}]
    rev_ok = True
    try:
        Sem(defs, case["cfg"]).layout(rev)
        extra.append({"k": "structdef", "n": "Rev", "t": rev})
    except refsem.DefinitionError:
        rev_ok = False
    full = dict(case, defs=defs + extra)
    cs = common.load(full)
    T, O = cs.Root, cs.Other
    semx = Sem(full["defs"], case["cfg"])
    desc = lambda extra_=None: common.describe(full, extra_)  # noqa: E731

    def build(TT, node, val):
        r = lib(libside.build_value, TT, semx, node, val)
        if isinstance(r, Err):
            raise Violation("construction-raised", f"constructing {val!r}: {r}: {desc()}", r.where)
        return r

    a = build(T, common.ROOT, want)
    b = build(T, common.ROOT, want)
    if libside.cplain(a) != refsem.canon(want):
        raise Violation("constructor-changed-values", f"T(**values) holds {libside.cplain(a)!r}, given {refsem.canon(want)!r}: {desc()}")
    # ---- equality / hash
    nan = refsem.has_nan(want)
    if not nan:
        eq = lib(lambda: a == b)
        if eq is not True:
            raise Violation("equal-instances-unequal", f"two instances built from the same values: == gives {eq!r}: {desc()}")
        ha, hb = lib(hash, a), lib(hash, b)
        if isinstance(ha, Err) or isinstance(hb, Err):
            if not (isinstance(ha, Err) and ha.type == "TypeError"):
                raise Violation("hash-raised", f"hash raised {ha!r}/{hb!r}: {desc()}")
            ctx.count("hash:unhashable-field(TypeError)")
        elif ha != hb:
            raise Violation("equal-instances-hash-differently", f"a == b but hash {ha} != {hb}: {desc()}")
        else:
            ctx.count("hash:equal")
        # equal by VALUE, not by encoding: 0.0 and -0.0 are equal fields
        tw = _twin(sem, common.ROOT, want)
        if tw is not None:
            bt = build(T, common.ROOT, tw)
            if lib(lambda: a == bt) is not True or lib(lambda: bt == a) is not True:
                raise Violation("equal-instances-unequal", f"instances whose fields are all equal (one float field holds 0.0 in one and -0.0 in the other): == gives {lib(lambda: a == bt)!r}: {desc()}")
            hbt = lib(hash, bt)
            if not isinstance(ha, Err) and not isinstance(hbt, Err) and ha != hbt:
                raise Violation("equal-instances-hash-differently", f"a == b (0.0 vs -0.0 in one field) but hash {ha} != {hbt}: {desc()}")
            ctx.count("pair:equal-but-not-identical(0.0/-0.0)")
        # an instance parsed from the encoding equals the constructed one, in both directions, with the same hash and truth
        e_ = bytes(sem.encode(common.ROOT, want))
        pobj = lib(T, e_ + b"\x00")
        if isinstance(pobj, Err):
            raise Violation("construction-raised", f"parsing the reference encoding {e_.hex()} raised {pobj}: {desc()}", pobj.where)
        if libside.cplain(pobj) == refsem.canon(want):
            if lib(lambda: pobj == a) is not True or lib(lambda: a == pobj) is not True:
                raise Violation("equal-instances-unequal", f"a parsed and a constructed instance holding the same values: parsed == built {lib(lambda: pobj == a)!r}, built == parsed {lib(lambda: a == pobj)!r}: {desc()}")
            hp = lib(hash, pobj)
            if not isinstance(ha, Err) and (isinstance(hp, Err) or hp != ha):
                raise Violation("equal-instances-hash-differently", f"parsed == built but hash {hp!r} != {ha!r}: {desc()}")
            if lib(bool, pobj) is not lib(bool, a):
                raise Violation("bool-inconsistent", f"bool(parsed) is {lib(bool, pobj)!r}, bool(built) is {lib(bool, a)!r}: {desc()}")
            ctx.count("pair:parsed-vs-built")
    # differ in exactly one field
    if nfields:
        idx = {"first": 0, "middle": nfields // 2, "last": nfields - 1}[case["which"]]
        for probe in range(nfields):
            j = (idx + probe) % nfields if probe else idx
            f = root["fields"][j]
            key = fkey(f, j)
            nv = (want[key] ^ 1) if f.get("bits") else _mutate_leaf(sem, f["t"], want[key], case["alt"])
            if nv is not None and refsem.canon(nv) != refsem.canon(want[key]):
                v2 = dict(want)
                v2[key] = nv
                c = build(T, common.ROOT, v2)
                eq = lib(lambda: a == c)
                ne = lib(lambda: a != c)
                if eq is not False or ne is not True:
                    raise Violation("unequal-instances-equal", f"instances differing only in field {key!r} ({case['which']} -> index {j}): == gives {eq!r}, != gives {ne!r}: {desc()}")
                ctx.count(f"pair:differs-in:{'first' if j == 0 else 'last' if j == nfields - 1 else 'middle'}")
                break
    # same values, different class
    onode = {"k": "ref", "n": "Other"}
    ovals = {fkey(fo, i): want[fkey(fr, i)] for i, (fr, fo) in enumerate(zip(root["fields"], other["fields"]))}
    d = build(O, onode, ovals)
    eq = lib(lambda: a == d)
    if eq is not False:
        raise Violation("different-classes-equal", f"Root(...) == Other(...) with the same values gives {eq!r}: {desc()}")
    if rev_ok and nfields >= 2:
        rnode = {"k": "ref", "n": "Rev"}
        rvals = {fkey(f, i): want[fkey(root["fields"][nfields - 1 - i], nfields - 1 - i)] for i, f in enumerate(rev["fields"])}
        r = build(cs.Rev, rnode, rvals)
        if lib(lambda: a == r) is not False:
            raise Violation("different-classes-equal", f"Root(...) == Rev(...) gives True: {desc()}")
        if libside.cplain(r) != refsem.canon(rvals):
            raise Violation("constructor-changed-values", f"Rev(**values) holds {libside.cplain(r)!r}, given {refsem.canon(rvals)!r} (template shared between classes of equal field count?): {desc()}")
        ctx.count("siblings:rev-alive")
    # ---- bool
    lf = list(T.__fields__)
    exp_bool = any(_field_truthy(getattr(a, f._name)) for f in lf)
    gb = lib(bool, a)
    if gb is not exp_bool:
        raise Violation("bool-inconsistent", f"bool(a) is {gb!r}, any field truthy is {exp_bool}: {desc()}")
    z = lib(T)
    if isinstance(z, Err):
        raise Violation("default-construction-raised", f"T() raised {z}: {desc()}", z.where)
    if libside.cplain(z) != refsem.canon(sem.default(common.ROOT)):
        raise Violation("default-not-zero", f"T() holds {libside.cplain(z)!r}, reference zero value {refsem.canon(sem.default(common.ROOT))!r}: {desc()}")
    # ---- locality below a DEFAULT-built member: assigning inside one element of a default array of structures (or one
    # cell of a default multi-dimensional array) changes that element's bytes only
    for i_, f_ in enumerate(root["fields"]):
        ft_ = sem.res(f_["t"])
        if f_.get("name") is None or ft_["k"] != "a" or ft_["len"][0] != "fixed" or ft_["len"][1] < 2:
            continue
        et_ = sem.res(ft_["t"])
        dmodel = copy.deepcopy(sem.default(common.ROOT))
        zobj = T()
        lname = lf[i_]._name
        idx_ = ft_["len"][1] - 1
        if et_["k"] == "st" and et_["kind"] == "struct":
            cand = [(j_, g_) for j_, g_ in enumerate(et_["fields"]) if g_.get("name") and not g_.get("bits") and sem.res(g_["t"])["k"] == "s" and refsem.SCALARS[sem.res(g_["t"])["n"]][0] == "int"]
            if not cand:
                continue
            j_, g_ = cand[0]
            ename = type(getattr(zobj, lname)[idx_]).__fields__[j_]._name
            r_ = lib(setattr, getattr(zobj, lname)[idx_], ename, 1)
            dmodel[fkey(f_, i_)][idx_][fkey(g_, j_)] = 1
            what_ = f"T().{lname}[{idx_}].{ename} = 1"
        elif et_["k"] == "a" and et_["len"][0] == "fixed" and et_["len"][1] >= 1 and sem.res(et_["t"])["k"] == "s" and refsem.SCALARS[sem.res(et_["t"])["n"]][0] == "int":
            r_ = lib(getattr(zobj, lname)[idx_].__setitem__, 0, 1)
            dmodel[fkey(f_, i_)][idx_][0] = 1
            what_ = f"T().{lname}[{idx_}][0] = 1"
        else:
            continue
        if isinstance(r_, Err):
            raise Violation("assignment-raised", f"{what_}: {r_}: {desc()}", r_.where)
        dz = lib(zobj.dumps)
        ez = bytes(sem.encode(common.ROOT, dmodel))
        if isinstance(dz, Err) or dz != ez or libside.cplain(zobj) != refsem.canon(dmodel):
            raise Violation("assignment-not-local", f"{what_} on a default-constructed instance: the instance holds {libside.cplain(zobj)!r} and dumps {dz!r}; only that element changes: {refsem.canon(dmodel)!r} / {ez.hex()}: {desc()}")
        ctx.count("assign:inside-an-element-of-a-default-array")
        break
    # ---- constructor: positional + keyword == default + setattr
    npos = min(case["npos"], nfields)
    vals = [getattr(a, f._name) for f in lf]
    if npos == 1 and (isinstance(vals[0], (bytes, bytearray, memoryview)) or hasattr(vals[0], "read")):
        # T(<bytes>) / T(<object with .read>) is the documented "parse this" overload, not positional construction
        # (a nested structure value with a field called `read` duck-types as a stream)
        npos = 0
        ctx.count("ctor:single-bytes-positional-is-parse(excluded)")
    kw = {lf[i]._name: vals[i] for i in range(npos, nfields) if (case["kwmask"] >> i) & 1}
    o1 = lib(lambda: T(*vals[:npos], **kw))
    if isinstance(o1, Err):
        raise Violation("construction-raised", f"T(*{npos} positional, **{sorted(kw)}) raised {o1}: {desc()}", o1.where)
    o2 = T()
    for i in range(npos):
        setattr(o2, lf[i]._name, vals[i])
    for k_, v_ in kw.items():
        setattr(o2, k_, v_)
    if not nan and (lib(lambda: o1 == o2) is not True or lib(lambda: T() == T()) is not True):
        raise Violation("constructor-differs-from-setattr", f"T(*{npos} positional, **{sorted(kw)}) == default+setattr gives {lib(lambda: o1 == o2)!r}; T() == T() gives {lib(lambda: T() == T())!r}: {desc()}")
    h1, h2 = lib(hash, o1), lib(hash, o2)
    if not nan and not isinstance(h1, Err) and not isinstance(h2, Err) and h1 != h2:
        raise Violation("equal-instances-hash-differently", f"T(*{npos} positional, **{sorted(kw)}) and default+setattr are equal but hash {h1} != {h2}: {desc()}")
    if libside.cplain(o1) != libside.cplain(o2) or lib(o1.dumps) != lib(o2.dumps):
        raise Violation("constructor-differs-from-setattr", f"T(*{npos} positional, **{sorted(kw)}) = {libside.cplain(o1)!r}, default+setattr = {libside.cplain(o2)!r}: {desc()}")
    # unspecified members are this instance's own: changing them in place on one instance built this way does not
    # show on the next one built the same way
    unspecified = {lf[i]._name for i in range(npos, nfields) if lf[i]._name not in kw}
    scratch = lib(lambda: T(*vals[:npos], **kw))
    if not isinstance(scratch, Err) and unspecified:
        nt = lib(libside.touch_mutable, scratch, unspecified)
        if isinstance(nt, int) and nt:
            o3 = lib(lambda: T(*vals[:npos], **kw))
            if isinstance(o3, Err) or libside.cplain(o3) != libside.cplain(o2) or lib(o3.dumps) != lib(o2.dumps):
                raise Violation("constructor-differs-from-setattr", f"T(*{npos} positional, **{sorted(kw)}) built after another instance built the same way had its unspecified members {sorted(unspecified)} changed in place gives {o3 if isinstance(o3, Err) else libside.cplain(o3)!r}, default+setattr = {libside.cplain(o2)!r}: {desc()}")
            ctx.count(f"ctor:unspecified-mutable-member-touched:{'positional' if npos else 'keyword-only'}")
    dflt = refsem.canon(sem.default(common.ROOT))
    p1 = libside.cplain(o1)
    for i, f in enumerate(root["fields"]):
        if i >= npos and lf[i]._name not in kw and p1[fkey(f, i)] != dflt[fkey(f, i)]:
            raise Violation("unspecified-field-not-zero", f"field {fkey(f, i)!r} was not specified but holds {p1[fkey(f, i)]!r}, zero value {dflt[fkey(f, i)]!r}: {desc()}")
    # ---- locality of assignment (on the built instance, or on one parsed from its encoding: drawn by the case)
    if case.get("assign", 0) % 2 == 1 and not nan:
        pa = lib(T, bytes(sem.encode(common.ROOT, want)))
        if not isinstance(pa, Err) and libside.cplain(pa) == refsem.canon(want):
            hp_ = lib(hash, pa)  # hashed before the assignment, like `a`
            a = pa
            ctx.count("assign:on-parsed-instance")
    d0 = lib(a.dumps)
    e0 = bytes(sem.encode(common.ROOT, want))
    if isinstance(d0, Err) or d0 != e0:
        raise Violation("dumps-differs-from-reference", f"dumps {d0!r}, reference {e0.hex()}: {desc()}", info={"exc": getattr(d0, "type", None)})
    targets = []  # (path of attribute names, model path, type)
    for i, f in enumerate(root["fields"]):
        ft = sem.res(f["t"])
        if f.get("name") is None:
            def folded(st_t, mprefix):
                for j, g in enumerate(st_t["fields"]):
                    if g.get("name"):
                        targets.append(((g["name"],), mprefix + (fkey(g, j),), g))
                    elif sem.res(g["t"])["k"] == "st":
                        folded(sem.res(g["t"]), mprefix + (fkey(g, j),))  # an anonymous member inside an anonymous member

            folded(ft, (fkey(f, i),))
        else:
            targets.append(((lf[i]._name,), (fkey(f, i),), f))
            if ft["k"] == "st" and ft["kind"] == "struct":
                for j, g in enumerate(ft["fields"]):
                    if g.get("name"):
                        targets.append(((lf[i]._name, g["name"]), (fkey(f, i), fkey(g, j)), g))
    if targets:
        attrs, mpath, fld = targets[case["assign"] % len(targets)]
        cur = want
        for p in mpath:
            cur = cur[p]
        nv = (cur ^ 1) if fld.get("bits") else _mutate_leaf(sem, fld["t"], cur, case["alt"])
        if nv is not None:
            newtree = copy.deepcopy(want)
            node = newtree
            for p in mpath[:-1]:
                node = node[p]
            node[mpath[-1]] = nv
            # library value for nv
            holder = a
            TT = T
            for name in attrs[:-1]:
                holder = getattr(holder, name)
            ftype = None
            hcls = type(holder)
            if attrs[-1] in hcls.fields:
                ftype = hcls.fields[attrs[-1]].type
            newobj = lib(libside.build_value, ftype, semx, fld["t"], nv) if ftype is not None else nv
            r = lib(setattr, holder, attrs[-1], newobj)
            if isinstance(r, Err):
                raise Violation("assignment-raised", f"setting {'.'.join(attrs)} raised {r}: {desc()}", r.where)
            back = holder
            got_back = lib(getattr, holder, attrs[-1])
            if isinstance(got_back, Err) or libside.cplain(got_back) != refsem.canon(nv):
                raise Violation("assignment-not-readable", f"after {'.'.join(attrs)} = {nv!r} reading it gives {got_back!r}: {desc()}")
            d1 = lib(a.dumps)
            e1 = bytes(sem.encode(common.ROOT, newtree))
            if isinstance(d1, Err) or d1 != e1:
                changed = [] if isinstance(d1, Err) else [i for i in range(min(len(e0), len(d1))) if d1[i] != e0[i]]
                raise Violation("assignment-not-local", f"after {'.'.join(attrs)} = {nv!r}: dumps {d1!r}, reference {e1.hex()} (before: {e0.hex()}, changed bytes {changed}): {desc()}")
            # equality and hash follow the assignment (a was hashed above, before it): no memoised result survives
            if not refsem.has_nan(newtree):
                b2 = build(T, common.ROOT, newtree)
                eq2 = lib(lambda: a == b2)
                if eq2 is not True:
                    raise Violation("equal-instances-unequal", f"after {'.'.join(attrs)} = {nv!r} the instance and one built from the same values: == gives {eq2!r}: {desc()}")
                if refsem.canon(newtree) != refsem.canon(want) and lib(lambda: a == b) is not False:
                    raise Violation("unequal-instances-equal", f"after {'.'.join(attrs)} = {nv!r} the instance still equals one holding the old values: {desc()}")
                ha2, hb2 = lib(hash, a), lib(hash, b2)
                if not isinstance(ha2, Err) and not isinstance(hb2, Err):
                    if ha2 != hb2:
                        raise Violation("equal-instances-hash-differently", f"hash(a) taken, then {'.'.join(attrs)} = {nv!r}: a == b2 but hash {ha2} != {hb2} (stale hash?): {desc()}")
                    ctx.count("hash:equal-after-assignment")
                elif not (isinstance(ha2, Err) and ha2.type == "TypeError"):
                    raise Violation("hash-raised", f"hash raised {ha2!r}/{hb2!r}: {desc()}")
            kind = "bit-field" if fld.get("bits") else "anonymous-forwarded-two-levels" if len(mpath) >= 3 and len(attrs) == 1 else "anonymous-forwarded" if len(mpath) == 2 and len(attrs) == 1 else "nested" if len(attrs) == 2 else "top"
            ctx.count("assign:" + kind)
    ctx.count(f"fields:{nfields}")
    feats = common.model_features(sem, common.ROOT)
    for f in feats & {"bit-field", "hazard-name", "anonymous-member", "nested-struct", "array", "enum", "flag", "pointer", "void", "float"}:
        ctx.count("has:" + f)
    ctx.count("reader:" + ("compiled" if getattr(T, "__compiled__", False) else "interpreted"))
    if nfields >= 3:
        ctx.mark_nontrivial([case["defs"], case["cfg"], case["data"], case["which"], case["npos"], case["assign"]])
        ctx.sample(common.describe(case, {"which": case["which"], "npos": case["npos"]}), "c17")


def stages(tier):
    q = tier == "quick"
    return [
        HypStage("values", value_case, examples=500 if q else 5000, shards=8 if q else 16),
        HypStage("through-unions", through_union_case, examples=500 if q else 5000, shards=4 if q else 8),
        EnumStage("wide", wide_cases, shards=4, scope="field counts 13, 30..33, 64, 129, 255..257, 300 x {compiled, interpreted}: equality, hash, per-index inequality / truth / assignment locality"),
        EnumStage("char-member", char_cases, shards=2, scope="a scalar char member given each of the 256 values as bytes, int and str, by assignment (on a built and on a parsed instance) and by keyword: only its byte changes in the dump"),
        EnumStage("counts", count_cases, shards=2, scope="field counts 0..12 x 3 name orders, with same-count siblings alive"),
    ]
