"""C06 — bit-fields partition their storage unit exactly, in endian-defined order."""
from __future__ import annotations

import io

from hypothesis import strategies as st

from pbt import common, gens, libside, refsem
from pbt.drive import EnumStage, Err, HarnessError, HypStage, Violation, import_repo, lib
from pbt.refsem import SCALARS, S, fkey

ID = "C06"
RULE = (
    "cases: (a) exhaustive - every sequence of <=4 widths with sum <= 8 over an 8-bit unit x all 256 unit values x "
    "{little, big} x {int8, uint8, char-backed enum} x {compiled, interpreted}, and every sequence of <=3 widths with sum "
    "<= 16 over a 16-bit unit x 96 unit values; (b) Hypothesis - bit-field-heavy definitions (runs over signed/unsigned "
    "8..64-bit storage, enum/flag storage, interleaved non-bit and dynamic fields, aligned/packed) with garbage in "
    "unassigned bits; (c) negative class - width sequences that straddle a unit must be rejected at load in both modes. "
    "Oracle: independent bit slicing U=int.from_bytes(unit); LE field i = (U >> sum(prev)) & mask, BE field i = "
    "(U >> (unitbits - sum(prev) - w)) & mask; consumed bytes = reference unit allocation; writing fitting values gives the "
    "reference packing with unassigned bits zero and parse(dumps) = id. Non-trivial = >= 2 bit-fields sharing a unit or a "
    "unit switch, and (for inputs) the unit's top bit set; distinct by (definition, cfg, unit contents)."
)
ASSUMPTIONS = [
    "bit-field values are unsigned in [0, 2^w) regardless of the signedness of the storage type, as the property states",
    "a new unit starts on exhausted unit, different storage type (enum/flag count as their underlying type) or an intervening non-bit field",
]


def compositions(total, maxk):
    out = []

    def rec(prefix, left):
        if prefix:
            out.append(tuple(prefix))
        if len(prefix) == maxk:
            return
        for w in range(1, left + 1):
            rec(prefix + [w], left - w)

    rec([], total)
    return out


def unit_cases():
    for widths in compositions(8, 4):
        for endian in "<>":
            for storage in ("uint8", "int8", "enum8", "char"):
                for compiled in (False, True):
                    yield {"widths": list(widths), "endian": endian, "storage": storage, "compiled": compiled, "unit": 8}
    vals16 = sorted({0, 1, 0x8000, 0xFFFF, 0x7FFF, 0x00FF, 0xFF00, 0xA5A5, 0x5A5A, 0x1234, 0xFEDC} | {(i * 2654435761) & 0xFFFF for i in range(1, 90)})
    for widths in compositions(16, 3):
        for endian in "<>":
            for storage in ("uint16", "int16"):
                yield {"widths": list(widths), "endian": endian, "storage": storage, "compiled": sum(widths) % 2 == 0, "unit": 16, "values": vals16[:96]}


@st.composite
def bits_case(draw):
    o = gens.opts(bits_weight=11, max_fields=6, max_depth=1, unions=False, pointers=draw(st.booleans()), floats=draw(st.booleans()), wchar=draw(st.booleans()), void=draw(st.booleans()), eof=False, signed_flags=False, bits_char=True, bits_odd=True, wide_bits=True)
    return draw(gens.input_case(o))


@st.composite
def straddle_case(draw):
    storage = draw(st.sampled_from(["uint8", "int8", "uint16", "int16", "uint32", "int32", "uint64", "int64", "uint24", "int48", "uint128", "char"]))
    bits = SCALARS[storage][1] * 8
    pre = draw(st.lists(st.integers(1, bits), max_size=3))
    used = 0
    widths = []
    for w in pre:
        if used + w <= bits:
            widths.append(w)
            used += w
    left = bits - used
    # an exhausted unit (left == 0) makes the next field start a fresh one: only a width above the unit size straddles
    bad = draw(st.integers(left + 1, bits + 3)) if 0 < left < bits else bits + draw(st.integers(1, 3))
    widths.append(bad)
    after = draw(st.lists(st.integers(1, 4), max_size=2))
    # what stands before the run: nothing, a plain member, a FULL unit of the same type, a partial unit of another type, a
    # dynamic member, an enum-typed bit-field of the same storage; and the run may sit in a nested structure
    prefix = draw(st.sampled_from(["", "lead", "full-unit", "other-partial", "dynamic", "enum-bits"]))
    return {"straddle": True, "storage": storage, "widths": widths + after, "bad_index": len(widths) - 1, "align": draw(st.booleans()), "endian": draw(st.sampled_from("<>")),
            "lead": prefix == "lead", "prefix": prefix, "nested": draw(st.integers(0, 3)) == 0}


# ---------------------------------------------------------------- oracle

def _slice(U, unitbits, widths, endian):
    out = []
    used = 0
    for w in widths:
        lo = used if endian == "<" else unitbits - used - w
        out.append((U >> lo) & ((1 << w) - 1))
        used += w
    return out


def _pack(vals, unitbits, widths, endian):
    U = 0
    used = 0
    for v, w in zip(vals, widths):
        lo = used if endian == "<" else unitbits - used - w
        U |= v << lo
        used += w
    return U


def _run_unit(case, ctx):
    m = import_repo()
    widths, endian, unit = case["widths"], case["endian"], case["unit"]
    nbytes = unit // 8
    storage = case["storage"]
    # half of the cases load the definition under the OTHER byte order and switch afterwards: the bit order follows
    # the endianness current at parse time
    flip = (sum(widths) + len(widths) + (1 if case["compiled"] else 0)) % 2 == 1
    cs = m.cstruct(endian=("<" if endian == ">" else ">") if flip else endian)
    text = ""
    tname = storage
    if storage == "enum8":
        text += "enum E8 : uint8 { Z = 0, ONE = 1, THREE = 3 };\n"
        tname = "E8"
    text += "struct Root {\n" + "".join(f"    {tname} f{i} : {w};\n" for i, w in enumerate(widths)) + "    uint8 tail;\n};\n"
    r = lib(cs.load, text, compiled=case["compiled"])
    if isinstance(r, Err):
        raise Violation("definition-rejected", f"{text} endian {endian} compiled={case['compiled']}: {r}", r.where)
    T = cs.Root
    if flip:
        cs.endian = endian
        ctx.count("unit:endian-switched-after-load")
    bo = "little" if endian == "<" else "big"
    values = case.get("values") or range(256)
    assigned = _pack([(1 << w) - 1 for w in widths], unit, widths, endian)
    for U in values:
        data = U.to_bytes(nbytes, bo) + b"\x5a"
        s = io.BytesIO(data)
        obj = lib(T, s)
        if isinstance(obj, Err):
            raise Violation("parse-raised", f"{text} endian {endian} unit={U:#x}: {obj}", obj.where)
        got = [int(getattr(obj, f"f{i}")) for i in range(len(widths))]
        want = _slice(U, unit, widths, endian)
        if got != want or obj.tail != 0x5A or s.tell() != nbytes + 1:
            raise Violation("wrong-bits", f"{text} endian {endian} compiled={case['compiled']} unit={U:#0{nbytes * 2 + 2}x}: fields {got}, expected {want}; tail={obj.tail:#x} consumed={s.tell()}")
        d = lib(obj.dumps)
        if isinstance(d, Err):
            raise Violation("dumps-raised", f"{text} endian {endian} unit={U:#x}: {d}", d.where)
        wantd = (U & assigned).to_bytes(nbytes, bo) + b"\x5a"
        if d != wantd:
            raise Violation("wrong-packing", f"{text} endian {endian} unit={U:#x}: dumps {d.hex()}, expected {wantd.hex()} (unassigned bits zero)")
        # writer as exact inverse: construct from values
        kw = {f"f{i}": (getattr(cs, "E8")(v) if storage == "enum8" else v) for i, v in enumerate(want)}
        o2 = lib(lambda: T(tail=0x5A, **kw))
        d2 = o2 if isinstance(o2, Err) else lib(o2.dumps)
        if isinstance(d2, Err) or d2 != wantd:
            raise Violation("constructed-wrong-packing", f"{text} endian {endian}: T({want}).dumps() = {d2!r}, expected {wantd.hex()}")
    ctx.evaluations += len(values) - 1
    ctx.count(f"unit{unit}:{storage}:{'compiled' if getattr(T, '__compiled__', False) else 'interpreted'}")
    if len(widths) >= 2:
        ctx.mark_nontrivial([widths, endian, storage, case["compiled"], unit])
        if sum(widths) < unit:
            ctx.count("unit:unassigned-bits")
        ctx.sample({"definition": text, "endian": endian, "units_tried": len(values)}, f"unit{unit}")


def _run_straddle(case, ctx):
    m = import_repo()
    st_, bits = case["storage"], SCALARS[case["storage"]][1] * 8
    other = "uint16" if st_ not in ("uint16", "int16") else "uint32"
    pre = {"": "", "lead": "    uint8 lead;\n", "full-unit": f"    {st_} whole : {bits};\n", "other-partial": f"    {other} part : 3;\n",
           "dynamic": "    uint8 n;\n    char s[n];\n", "enum-bits": f"    En eb : {bits};\n"}[case.get("prefix", "lead" if case["lead"] else "")]
    enumdef = f"enum En : {st_} {{ A = 1 }};\n" if case.get("prefix") == "enum-bits" and st_ != "char" else ""
    if case.get("prefix") == "enum-bits" and st_ == "char":
        pre = ""
    run = "".join(f"    {st_} f{i} : {w};\n" for i, w in enumerate(case["widths"]))
    if case.get("nested"):
        text = enumdef + "struct Root {\n" + pre + "    struct {\n" + run.replace("    ", "        ") + "    } inner;\n    uint8 after;\n};\n"
    else:
        text = enumdef + "struct Root {\n" + pre + run + "};\n"
    for compiled in (False, True):
        cs = m.cstruct(endian=case["endian"])
        r = lib(cs.load, text, compiled=compiled, align=case["align"])
        if not isinstance(r, Err):
            raise Violation("straddle-accepted", f"compiled={compiled} align={case['align']}: a definition whose field f{case['bad_index']} straddles its unit was accepted:\n{text}")
    ctx.count("straddle:rejected")
    ctx.count("straddle:prefix:" + (case.get("prefix") or "none") + (":nested" if case.get("nested") else ""))
    ctx.mark_nontrivial([text, case["align"]])
    ctx.sample({"definition": text, "rejected": True}, "straddle")


def run_case(case, ctx):
    if "unit" in case:
        return _run_unit(case, ctx)
    if case.get("straddle"):
        return _run_straddle(case, ctx)
    ref = common.reference(case)
    if ref["status"] != "ok":
        ctx.count("input:" + ref["status"])
        return
    sem, data, mask, end = ref["sem"], ref["data"], ref["mask"], ref["end"]
    cs = common.load(case)
    T = cs.Root
    s = io.BytesIO(data)
    obj = lib(T, s)
    if isinstance(obj, Err):
        raise Violation("accepted-input-rejected", f"{common.describe(case)} -> {obj}", obj.where)
    got = libside.cplain(obj)
    want = refsem.canon(ref["want"])
    if got != want:
        raise Violation("wrong-bits", f"at {common.diff_paths(want, got)[:5]}: parsed {got!r}, reference {want!r}: {common.describe(case)}", info={"want_ref": True})
    if s.tell() != end:
        raise Violation("unit-allocation-differs", f"consumed {s.tell()}, reference unit allocation {end}: {common.describe(case)}")
    # every bit-field value in range
    root = sem.res(common.ROOT)
    for i, f in enumerate(root["fields"]):
        if f.get("bits") and not (0 <= ref["want"][fkey(f, i)] < (1 << f["bits"])):
            raise HarnessError("reference produced an out-of-range bit-field value")
    d = lib(obj.dumps)
    if isinstance(d, Err):
        raise Violation("dumps-raised", f"{common.describe(case)} -> {d}", d.where, {"exc": d.type})
    wantd = bytes(sem.encode(common.ROOT, ref["want"]))
    if len(wantd) < end:
        wantd += bytes(end - len(wantd))
    if d != wantd:
        raise Violation("wrong-packing", f"dumps {d.hex()}, reference packing {wantd.hex()}: {common.describe(case)}", info={"bad": [i for i in range(min(len(d), len(wantd))) if d[i] != wantd[i]]})
    o2 = lib(libside.build_value, T, sem, common.ROOT, ref["want"])
    d2 = o2 if isinstance(o2, Err) else lib(o2.dumps)
    if isinstance(d2, Err) or d2 != wantd:
        raise Violation("constructed-wrong-packing", f"constructed value dumps {d2!r}, reference packing {wantd.hex()}: {common.describe(case)}", info={"exc": getattr(d2, "type", None)})
    nbits = [f for f in root["fields"] if f.get("bits")]
    units = {u[0] for u in sem.layout(root)["units"] if u}
    feats = common.model_features(sem, common.ROOT)
    ctx.count("random:units:%d" % min(len(units), 4))
    for f in feats & {"enum", "flag", "dynamic", "nested-struct", "array"}:
        ctx.count("has:" + f)
    ctx.count("cfg:" + ("aligned" if case["cfg"]["align"] else "packed") + (":compiled" if getattr(T, "__compiled__", False) else ":interpreted"))
    top = False
    for u in set(x[0] for x in sem.layout(root)["units"] if x):
        pass
    if len(nbits) >= 2 and (len(nbits) > len(units) or len(units) >= 2):
        ctx.mark_nontrivial([case["defs"], case["cfg"], case["data"]])
        ctx.sample(common.describe(case), "random")


def stages(tier):
    q = tier == "quick"
    return [
        EnumStage("units", unit_cases, shards=8 if q else 16, scope="all width sequences (<=4 fields, sum<=8) x 256 unit values x 2 endians x {uint8,int8,enum} x 2 readers; all (<=3 fields, sum<=16) x 96 values x 2 endians x {uint16,int16}"),
        HypStage("random", bits_case, examples=500 if q else 12000, shards=6 if q else 16),
        HypStage("straddle", straddle_case, examples=300 if q else 3000, shards=2 if q else 4),
    ]
