"""C19 — utilities: hexdump is lossless, colour cosmetic, pack/unpack/swap are inverses."""
from __future__ import annotations

import io
import re

from hypothesis import strategies as st

from pbt import common, gens, libside, refsem
from pbt.refsem import fkey
from pbt.drive import EnumStage, Err, HypStage, Violation, import_repo, lib

ID = "C19"
RULE = (
    "cases: (a) hexdump over byte strings of length 0..80 (weighted on 0,1,15,16,17,31,32,33), offsets up to > 2^32, "
    "prefixes, palettes = lists of (n >= 0, colour) whose sum is below/equal/above the data length with zero-length "
    "entries anywhere, outputs 'string' and 'generator'; (b) dumpstruct over parsed instances of generated definitions "
    "(bit-fields, nested, arrays, enums, pointers, unions) with colour on/off and both call forms; (c) pack/unpack, the "
    "pN/uN helpers and swap over sizes 8..256 step 8 and None, every endian spelling, boundary and random values - "
    "exhaustive table for the fixed-width helpers. Oracle: an independent line parser (prefix, running offset, hex column "
    "=> byte list whose concatenation is the data, 16 per line but the last, ASCII column by the printable rule); ANSI-"
    "stripped coloured output == uncoloured output and only palette colours appear; dumpstruct (stripped) contains "
    "hexdump(obj.dumps()) verbatim and one '- name:' line per field in declaration order; pack == int.to_bytes, unpack "
    "its inverse, helpers agree, swap(swap(v)) == v. Non-trivial = data length not a multiple of 16 with a palette entry "
    "crossing a line boundary; structure with >= 3 fields; integer wider than 1 byte with non-palindromic bytes."
)
ASSUMPTIONS = [
    "pack/unpack sizes are multiples of 8 or None with a non-negative value (DESIGN §3.10); swap∘swap is identity on [0, 2^size) and modulo 2^size for negatives",
    "dumpstruct is checked on parsed instances (the statement says 'a parsed structure')",
]

ANSI = re.compile(r"\x1b\[[0-9;]*m")
PRINTABLE = set("0123456789abcdefghijklmnopqrstuvwxyzABCDEFGHIJKLMNOPQRSTUVWXYZ!\"#$%&'()*+,-./:;<=>?@[\\]^_`{|}~ ")
LENGTHS = [0, 1, 15, 16, 17, 31, 32, 33]
ENDIANS = ["little", "big", "network", "<", ">", "!", "@", "="]


def parse_hexdump(text, prefix, offset, nbytes):
    """Independent parser of the documented layout; returns the bytes shown or raises ValueError."""
    if nbytes == 0:
        if text != "":
            raise ValueError(f"expected no output for empty data, got {text!r}")
        return b""
    lines = text.split("\n")
    out = bytearray()
    if len(lines) != (nbytes + 15) // 16:
        raise ValueError(f"{len(lines)} lines for {nbytes} bytes")
    for i, line in enumerate(lines):
        if not line.startswith(prefix):
            raise ValueError(f"line {i} lacks the prefix")
        rest = line[len(prefix):]
        want_off = f"{offset + 16 * i:08x}"
        if not rest.startswith(want_off + "  "):
            raise ValueError(f"line {i}: offset column {rest[:12]!r}, expected {want_off!r}")
        rest = rest[len(want_off) + 2:]
        hexcol, sep, asc = rest[:49], rest[49:51], rest[51:]
        if sep != "  " or len(hexcol) != 49:
            raise ValueError(f"line {i}: bad column separation {rest!r}")
        cells = []
        pos = 0
        for j in range(16):
            cells.append(hexcol[pos:pos + 2])
            if hexcol[pos + 2] != " ":
                raise ValueError(f"line {i}: cell {j} not followed by a space")
            pos += 3
            if j == 7:
                if hexcol[pos] != " ":
                    raise ValueError(f"line {i}: missing gap after 8 bytes")
                pos += 1
        n_here = min(16, nbytes - 16 * i)
        for j, c in enumerate(cells):
            if j < n_here:
                if not re.fullmatch(r"[0-9a-f]{2}", c):
                    raise ValueError(f"line {i}: cell {j} is {c!r}")
                out.append(int(c, 16))
            elif c != "  ":
                raise ValueError(f"line {i}: cell {j} beyond the data is {c!r}")
        want_asc = "".join(chr(b) if chr(b) in PRINTABLE else "." for b in out[-n_here:])
        if asc != want_asc:
            raise ValueError(f"line {i}: ASCII column {asc!r}, expected {want_asc!r}")
    return bytes(out)


@st.composite
def hexdump_case(draw):
    m = import_repo()
    n = draw(st.one_of(st.sampled_from(LENGTHS), st.integers(0, 80), st.sampled_from([255, 256, 257, 4095, 4096, 4097]), st.integers(81, 600)))
    data = draw(st.binary(min_size=n, max_size=n))
    if draw(st.booleans()):
        data = bytes((b % 95) + 32 if i % 3 else b for i, b in enumerate(data))
    offset = draw(st.one_of(st.just(0), st.integers(0, 4096), st.sampled_from([0xFFFFFFF0, 1 << 32, (1 << 40) + 5])))
    prefix = draw(st.sampled_from(["", "", "  ", "> ", "0x", "dead: ", "\t", "{", "}", "{0}| ", "{{ctx}} ", "%s %d ", "\\x ", "{!r:>4}", "é§ "]))
    colours = ["COLOR_RED", "COLOR_GREEN", "COLOR_BG_BLUE", "COLOR_BG_WHITE", "COLOR_NORMAL", ""]
    pal = draw(st.lists(st.tuples(st.one_of(st.integers(0, 3), st.integers(0, 20), st.sampled_from([0, 8, 16, 17]), st.integers(0, 300)), st.sampled_from(colours)), max_size=6))
    return {"hexdump": True, "data": data.hex(), "offset": offset, "prefix": prefix, "palette": [list(p) for p in pal]}


@st.composite
def dumpstruct_case(draw):
    o = gens.opts(max_fields=5, max_depth=1, eof=False, signed_flags=False)
    case = draw(gens.input_case(o, tail=False))
    case["dumpstruct"] = True
    case["offset"] = draw(st.sampled_from([0, 0, 16, 0x1000]))
    return case


def int_table():
    for size in (8, 16, 32, 64):
        for endian in ENDIANS:
            yield {"ints": True, "size": size, "endian": endian}


@st.composite
def int_case(draw):
    size = draw(st.one_of(st.none(), st.sampled_from(list(range(8, 257, 8)))))
    if size is None:
        v = draw(st.one_of(st.integers(0, 300), st.integers(0, 1 << 70)))
    else:
        lo, hi = -(1 << (size - 1)), (1 << size) - 1
        v = draw(st.one_of(st.sampled_from([0, 1, hi, lo, -1, 1 << (size - 1), (1 << (size - 1)) - 1, 0x0102030405060708 & hi]), st.integers(lo, hi)))
    return {"ints": True, "one": True, "size": size, "value": v, "endian": draw(st.sampled_from(ENDIANS))}


# ---------------------------------------------------------------- oracle

def _run_hexdump(case, ctx, m):
    from dissect.cstruct import utils as U

    data = bytes.fromhex(case["data"])
    off, prefix = case["offset"], case["prefix"]
    plain_s = lib(m.hexdump, data, None, off, prefix, "string")
    what = {"len": len(data), "offset": off, "prefix": prefix, "palette": case["palette"], "data": case["data"]}
    if isinstance(plain_s, Err):
        raise Violation("hexdump-raised", f"{what}: {plain_s}", plain_s.where)
    try:
        shown = parse_hexdump(plain_s, prefix, off, len(data))
    except ValueError as e:
        raise Violation("hexdump-layout", f"{what}: {e}\n{plain_s}") from None
    if shown != data:
        raise Violation("hexdump-lossy", f"{what}: shows {shown.hex()}")
    gen = lib(lambda: "\n".join(list(m.hexdump(data, None, off, prefix, "generator"))))
    if gen != plain_s:
        raise Violation("hexdump-generator-differs", f"{what}: generator output differs from string output")
    pal = [(n, getattr(U, c) if c else "") for n, c in case["palette"]]
    col = lib(m.hexdump, data, list(pal), off, prefix, "string")
    if isinstance(col, Err):
        raise Violation("hexdump-palette-raised", f"{what}: {col}", col.where)
    if ANSI.sub("", col) != plain_s:
        raise Violation("colour-not-cosmetic", f"{what}: stripped coloured output differs\ncoloured: {col!r}\nplain:    {plain_s!r}")
    allowed = {c for _, c in pal} | {U.COLOR_NORMAL, ""}
    used = set(ANSI.findall(col))
    allowed_codes = set()
    for c in allowed:
        allowed_codes |= set(ANSI.findall(c))
    if not used <= allowed_codes:
        raise Violation("foreign-colour", f"{what}: codes {used - allowed_codes} are not from the palette")
    import contextlib

    buf = io.StringIO()
    with contextlib.redirect_stdout(buf):
        ret = lib(m.hexdump, data, list(pal), off, prefix)
    if isinstance(ret, Err) or ret is not None or buf.getvalue() != col + "\n":
        raise Violation("hexdump-print-differs", f"{what}: the default (print) form printed {buf.getvalue()!r} and returned {ret!r}; the string form is {col!r}")
    ctx.count("hexdump:len%16=" + ("0" if len(data) % 16 == 0 else "nz"))
    tot = 0
    crossing = False
    for n, _ in pal:
        if n and tot // 16 != (tot + n - 1) // 16:
            crossing = True
        tot += n
    ctx.count("hexdump:palette:" + ("none" if not pal else "short" if tot < len(data) else "exact" if tot == len(data) else "long"))
    if any(n == 0 for n, _ in pal):
        ctx.count("hexdump:palette:zero-length-entry")
    if len(data) % 16 and crossing:
        ctx.mark_nontrivial(case)
        ctx.sample(what, "hexdump")


def _run_dumpstruct(case, ctx, m):
    ref = common.reference(case)
    if ref["status"] != "ok":
        return
    cs = common.load(case)
    T = cs.Root
    data = ref["data"][: ref["end"]]
    if len(data) < ref["end"]:
        data += bytes(ref["end"] - len(data))
    obj = lib(T, data)
    if isinstance(obj, Err):
        raise Violation("accepted-input-rejected", f"{common.describe(case)} -> {obj}", obj.where)
    dumped = lib(obj.dumps)
    if isinstance(dumped, Err):
        ctx.count("dumpstruct:dumps-raised(not-judged-here)")
        return
    off = case["offset"]
    names = [f._name for f in T.__fields__]
    expect_hd = m.hexdump(dumped, offset=off, output="string")
    for form in ("instance", "type+data"):
        for color in (False, True):
            if form == "instance":
                out = lib(m.dumpstruct, obj, None, off, color, "string")
            else:
                out = lib(m.dumpstruct, T, data, off, color, "string")
            what = {"call": form, "color": color}
            if isinstance(out, Err):
                raise Violation("dumpstruct-raised", f"{what}: {out}: {common.describe(case)}", out.where, {"exc": out.type, "color": color})
            stripped = ANSI.sub("", out)
            hd = expect_hd if form == "instance" else m.hexdump(data, offset=off, output="string")
            if hd not in stripped:
                raise Violation("dumpstruct-hexdump-missing", f"{what}: output does not contain the hex dump of the structure's bytes: {common.describe(case)}\n{stripped}")
            listed = re.findall(r"^- ([^:\n]+):", stripped, flags=re.M)
            # a value may itself span lines (pprint of lists); only lines starting with '- name:' count, in order
            pos = 0
            for nm in names:
                try:
                    pos = listed.index(nm, pos) + 1
                except ValueError:
                    raise Violation("dumpstruct-field-missing", f"{what}: field {nm!r} not listed in declaration order; listed {listed}: {common.describe(case)}") from None
            # ... WITH ITS VALUE: integer members (plain, bit-field, LEB128) are shown in hexadecimal
            root_t = ref["sem"].res(common.ROOT)
            for i_, f_ in enumerate(root_t["fields"]):
                ft_ = ref["sem"].res(f_["t"])
                if f_.get("name") and (f_.get("bits") and ft_["k"] == "s" or (ft_["k"] == "s" and refsem.SCALARS[ft_["n"]][0] in ("int", "leb"))):
                    line = f"- {T.__fields__[i_]._name}: {hex(ref['want'][fkey(f_, i_)])}"
                    if line not in stripped.split("\n"):
                        raise Violation("dumpstruct-value-wrong", f"{what}: expected the line {line!r}; listed lines: {[l for l in stripped.split(chr(10)) if l.startswith('- ')]}: {common.describe(case)}")
                    ctx.count("dumpstruct:value-line-checked")
            if not color and out != stripped:
                # observed, not claimed: color=False still emits reset codes (an empty palette is "not None")
                ctx.count("dumpstruct:reset-codes-in-uncoloured-output")
    # the default output form prints exactly the string form (object addresses in reprs aside)
    import contextlib

    addr = re.compile(r" at 0x[0-9a-fA-F]+")
    for color in (False, True):
        buf = io.StringIO()
        with contextlib.redirect_stdout(buf):
            ret = lib(m.dumpstruct, obj, None, off, color)
        want_s = lib(m.dumpstruct, obj, None, off, color, "string")
        if isinstance(ret, Err) or ret is not None or isinstance(want_s, Err) or addr.sub("", buf.getvalue()) != addr.sub("", want_s + "\n"):
            raise Violation("dumpstruct-print-differs", f"color={color}: dumpstruct(obj, offset={off}) printed {buf.getvalue()!r} (returned {ret!r}); the string form is {want_s!r}: {common.describe(case)}")
    # a parsed object whose integer members were assigned afterwards is listed with its CURRENT values, next to the hex dump
    # of its current bytes
    root_t = ref["sem"].res(common.ROOT)
    if root_t["kind"] == "struct":
        changed = {}
        for i_, f_ in enumerate(root_t["fields"]):
            ft_ = ref["sem"].res(f_["t"])
            if f_.get("name") and f_["name"] != "_" and (f_.get("bits") and ft_["k"] == "s" and ft_["n"] != "char" or (not f_.get("bits") and ft_["k"] == "s" and refsem.SCALARS[ft_["n"]][0] == "int")):
                nv = ref["want"][fkey(f_, i_)] ^ 1
                r_ = lib(setattr, obj, T.__fields__[i_]._name, nv)
                if not isinstance(r_, Err):
                    changed[T.__fields__[i_]._name] = nv
        dumped2 = lib(obj.dumps) if changed else None
        if changed and not isinstance(dumped2, Err):
            for color in (False, True):
                out = lib(m.dumpstruct, obj, None, off, color, "string")
                if isinstance(out, Err):
                    raise Violation("dumpstruct-raised", f"after assigning {changed}: {out}: {common.describe(case)}", out.where, {"exc": out.type, "color": color})
                stripped = ANSI.sub("", out)
                if m.hexdump(dumped2, offset=off, output="string") not in stripped:
                    raise Violation("dumpstruct-hexdump-missing", f"after assigning {changed} (color={color}): output does not contain the hex dump of the object's current bytes {dumped2.hex()}: {common.describe(case)}\n{stripped}")
                for nm, nv in changed.items():
                    if f"- {nm}: {hex(nv)}" not in stripped.split("\n"):
                        raise Violation("dumpstruct-value-wrong", f"after assigning {nm} = {hex(nv)} (color={color}) the listing does not show the line '- {nm}: {hex(nv)}'; listed lines: {[l for l in stripped.split(chr(10)) if l.startswith('- ')]}: {common.describe(case)}")
            ctx.count("dumpstruct:listed-after-assignment")
    feats = common.model_features(ref["sem"], common.ROOT)
    for f in feats & {"bit-field", "nested-struct", "nested-union", "array", "enum", "flag", "pointer", "dynamic", "anonymous-member"}:
        ctx.count("dumpstruct:has:" + f)
    if len(names) >= 3:
        ctx.mark_nontrivial([case["defs"], case["cfg"], case["data"]])
        ctx.sample(common.describe(case), "dumpstruct")


def _fits(v, size):
    return -(1 << (size - 1)) <= v < (1 << size)


def _check_int(m, v, size, endian, ctx):
    import sys as _sys

    bo = {"little": "little", "<": "little", "@": _sys.byteorder, "=": _sys.byteorder}.get(endian, "big")
    what = f"value {v} size {size} endian {endian!r}"
    nbytes = ((size or v.bit_length()) + 7) // 8
    want = v.to_bytes(nbytes, bo, signed=v < 0)
    got = lib(m.pack, v, size, endian)
    if isinstance(got, Err) or got != want:
        raise Violation("pack", f"{what}: pack -> {got!r}, two's complement gives {want.hex()}")
    back = lib(m.unpack, got, size, endian, v < 0)
    if isinstance(back, Err) or back != v:
        raise Violation("unpack-not-inverse", f"{what}: unpack(pack(v)) -> {back!r}")
    # the bytes -> number direction for BOTH readings of the same bytes
    for sg in (False, True):
        exp = int.from_bytes(want, bo, signed=sg)
        g2 = lib(m.unpack, want, size, endian, sg)
        if isinstance(g2, Err) or g2 != exp:
            raise Violation("unpack", f"{what}: unpack({want.hex()}, sign={sg}) -> {g2!r}, two's complement gives {exp}")
        rp = lib(m.pack, exp, size, endian) if size is not None else want  # (without a size the width follows the value)
        if isinstance(rp, Err) or rp != want:
            raise Violation("pack", f"{what}: pack({exp}) -> {rp!r}, expected {want.hex()}")
    if endian == "<" and v >= 0:
        # default arguments: little endian, unsigned, size taken from the data
        if size is not None and (lib(m.pack, v, size) != want or lib(m.unpack, want, size) != v or lib(m.unpack, want) != v):
            raise Violation("helper-disagrees", f"{what}: pack/unpack with default endian / sign / size arguments disagree with the explicit little-endian unsigned form")
        if size in (8, 16, 32, 64) and (lib(getattr(m, f"p{size}"), v) != want or lib(getattr(m, f"u{size}"), want) != v):
            raise Violation("helper-disagrees", f"{what}: p{size}(v) / u{size}(b) with default arguments disagree with the explicit little-endian unsigned form")
    if size in (8, 16, 32, 64):
        for sg in (False, True):
            if lib(getattr(m, f"u{size}"), want, endian, sg) != int.from_bytes(want, bo, signed=sg):
                raise Violation("helper-disagrees", f"{what}: u{size}({want.hex()}, sign={sg}) -> {lib(getattr(m, f'u{size}'), want, endian, sg)!r}")
        p = getattr(m, f"p{size}")
        u = getattr(m, f"u{size}")
        if lib(p, v, endian) != want:
            raise Violation("helper-disagrees", f"{what}: p{size} -> {lib(p, v, endian)!r}, pack -> {want.hex()}")
        if lib(u, want, endian, v < 0) != v:
            raise Violation("helper-disagrees", f"{what}: u{size} -> {lib(u, want, endian, v < 0)!r}")
    if size:
        s1 = lib(m.swap, v, size)
        s2 = s1 if isinstance(s1, Err) else lib(m.swap, s1, size)
        wantswap = int.from_bytes((v % (1 << size)).to_bytes(size // 8, "big"), "little")
        if isinstance(s1, Err) or s1 != wantswap:
            raise Violation("swap", f"{what}: swap -> {s1!r}, byte reversal gives {wantswap}")
        if isinstance(s2, Err) or s2 != v % (1 << size):
            raise Violation("swap-not-involution", f"{what}: swap(swap(v)) -> {s2!r}")
        if size in (16, 32, 64) and lib(getattr(m, f"swap{size}"), v) != wantswap:
            raise Violation("helper-disagrees", f"{what}: swap{size} disagrees with swap")
    if nbytes > 1 and want != want[::-1]:
        ctx.mark_nontrivial([v, size, endian])


def _run_ints(case, ctx, m):
    if case.get("one"):
        _check_int(m, case["value"], case["size"], case["endian"], ctx)
        ctx.count("ints:size:" + str(case["size"]))
        ctx.sample(case, "ints")
        return
    size, endian = case["size"], case["endian"]
    lo, hi = -(1 << (size - 1)), (1 << size) - 1
    vals = set(range(-130, 600)) | {lo, lo + 1, hi, hi - 1, 1 << (size - 1), (1 << (size - 1)) - 1}
    x = 0x2545F4914F6CDD1D
    for _ in range(1500):
        x = (x * 6364136223846793005 + 1442695040888963407) & ((1 << 64) - 1)
        vals.add(lo + x % (hi - lo + 1))
    n = 0
    for v in sorted(vals):
        if _fits(v, size):
            _check_int(m, v, size, endian, ctx)
            n += 1
    ctx.evaluations += n - 1
    ctx.count(f"ints:table:{size}")


def run_case(case, ctx):
    m = import_repo()
    if case.get("hexdump"):
        return _run_hexdump(case, ctx, m)
    if case.get("dumpstruct"):
        return _run_dumpstruct(case, ctx, m)
    return _run_ints(case, ctx, m)


def stages(tier):
    q = tier == "quick"
    return [
        HypStage("hexdump", hexdump_case, examples=1500 if q else 30000, shards=4 if q else 8),
        HypStage("dumpstruct", dumpstruct_case, examples=400 if q else 6000, shards=6 if q else 12),
        HypStage("ints", int_case, examples=2000 if q else 20000, shards=2 if q else 4),
        EnumStage("int-table", int_table, shards=4, scope="fixed-width helpers: sizes {8,16,32,64} x 6 endian spellings x [-130, 600) + boundaries + 1500 pseudo-random values each"),
    ]
