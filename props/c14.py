"""C14 — no hidden shared state: instances, defaults and cstruct objects are independent (histories)."""
from __future__ import annotations

import copy
import io

from hypothesis import strategies as st

from pbt import libside, refsem
from pbt.drive import Err, HarnessError, HypStage, Violation, import_repo, lib
from pbt.refsem import S, Sem

ID = "C14"
RULE = (
    "cases: generated operation histories (8-40 steps) over 1-3 cstruct objects whose same-named types have DIFFERENT "
    "layouts and endianness, and a pool of live instances: load further definitions, flip endianness, add a type alias, "
    "default-construct, construct with keyword values, assign a scalar field, mutate IN PLACE an array element / a nested "
    "structure's field / append to a list of a default- or parse-constructed instance, parse, dump, fail a parse on "
    "truncated input, register a type object of one cstruct object under a new name on another (add_type, replace, a "
    "typedef and a structure using it there: the type parses and dumps for its owner as before). Oracle (model: every instance owns a deep-copied plain value): after EVERY step each live instance "
    "equals its model (a mutation never leaks), a fresh T() equals the reference zero value, and parsing equals the "
    "reference decode under that object's current endianness irrespective of history. Non-trivial = the history mutates a "
    "nested/array field of a default-constructed instance and later default-constructs again, or interleaves >= 2 cstruct "
    "objects with same-named types; distinct by history."
)
ASSUMPTIONS = [
    "within one cstruct, re-loading an already defined name with another body is a documented ValueError: the load rule draws fresh names per object (the same names recur across different objects)",
    "in-place mutation = item assignment / append on list-valued fields and attribute assignment on nested structures, as plain Python permits",
]

U8, U16, U32 = S("uint8"), S("uint16"), S("uint32")


def _st(fields):
    return {"k": "st", "kind": "struct", "name": None, "fields": fields}


def _f(name, t, bits=None):
    return {"name": name, "t": t, "bits": bits}


# three variants of the type family; each cstruct object gets one variant, so "P"/"Q" differ across objects
VARIANTS = [
    {
        "P": _st([_f("a", U16), _f("arr", {"k": "a", "t": U8, "len": ["fixed", 3]}), _f("inn", _st([_f("x", U8), _f("y", U16), _f("v", {"k": "a", "t": U8, "len": ["fixed", 2]}), _f("deep", _st([_f("w", {"k": "a", "t": U16, "len": ["fixed", 2]})]))])), _f("s", {"k": "a", "t": S("char"), "len": ["fixed", 4]}), _f("z", U32)]),
        "Q": _st([_f("n", U8), _f("v", {"k": "a", "t": U16, "len": ["expr", "n", ["id", "n"]]}), _f("t", S("int24"))]),
    },
    {
        "P": _st([_f("a", U32), _f("arr", {"k": "a", "t": U16, "len": ["fixed", 2]}), _f("inn", _st([_f("x", U16), _f("y", U8)])), _f("z", U8)]),
        "Q": _st([_f("n", U8), _f("v", {"k": "a", "t": U8, "len": ["expr", "n + 1", ["bin", "+", ["id", "n"], ["lit", 1, "1"]]]}), _f("t", U16)]),
    },
    {
        "P": _st([_f("b0", U8, 3), _f("b1", U8, 5), _f("a", S("int64")), _f("arr", {"k": "a", "t": _st([_f("p", U8), _f("q", {"k": "a", "t": U8, "len": ["fixed", 2]})]), "len": ["fixed", 2]}), _f("inn", _st([_f("x", U32), _f("y", S("wchar"))])), _f("z", U16)]),
        "Q": _st([_f("n", U8), _f("v", {"k": "a", "t": S("char"), "len": ["expr", "n", ["id", "n"]]}), _f("t", S("uint48"))]),
    },
]
# every object also defines an enum E, a flag F (same names and members everywhere; the underlying type differs between
# variants) and a structure W using them as scalar, data-sized array and flag members
MEMBERS_E = [["E_A", 1], ["E_B", 2], ["E_C", 0x0102]]
MEMBERS_F = [["F_A", 1], ["F_B", 2], ["F_C", 0x0100]]
ENUM_BASES = [("uint16", "uint16"), ("uint16", "uint32"), ("uint32", "uint16")]
for _i, _v in enumerate(VARIANTS):
    _v["W"] = _st([_f("n", U8), _f("e", {"k": "e", "n": "E"}), _f("ea", {"k": "a", "t": {"k": "e", "n": "E"}, "len": ["expr", "n", ["id", "n"]]}), _f("f", {"k": "e", "n": "F"}), _f("t", U16)])


IN_T = _st([_f("t", U8), _f("v", {"k": "a", "t": U8, "len": ["fixed", 2]})])
for _i, _v in enumerate(VARIANTS):
    # a NAMED structure used by several members (and as array element) of one structure
    _v["O1"] = _st([_f("i", {"k": "ref", "n": "In"}), _f("j", {"k": "ref", "n": "In"}), _f("k", {"k": "a", "t": {"k": "ref", "n": "In"}, "len": ["fixed", 2]}), _f("e", U16 if _i else U8)])
    # anonymous members whose fields are folded into the parent
    _v["A"] = _st([_f("k", U8), _f(None, _st([_f("x", U16), _f("v", {"k": "a", "t": U8, "len": ["fixed", 2]})])), _f(None, _st([_f("w", U16), _f("b", {"k": "a", "t": U8, "len": ["fixed", 2]})])), _f("z", U8 if _i else U16)])
    # a count that depends on a constant of THIS object
    _v["QK"] = _st([_f("n", U8), _f("v", {"k": "a", "t": U8, "len": ["expr", "n + K", ["bin", "+", ["id", "n"], ["id", "K"]]]}), _f("t", U16)])
for _i, _v in enumerate(VARIANTS):
    _v["G"] = _st([_f("cells", {"k": "a", "t": {"k": "a", "t": U8 if _i != 1 else U16, "len": ["fixed", 2]}, "len": ["fixed", 3]}),
                   _f("corner", {"k": "a", "t": {"k": "a", "t": {"k": "ref", "n": "In"}, "len": ["fixed", 2]}, "len": ["fixed", 2]}), _f("g", U8)])
UNION_TEXT = ("union U { uint8 arr[4]; uint32 d; struct { uint16 lo; uint8 v[2]; } s; };\nstruct H { uint8 h; U u; uint8 t[2]; };\n"
              "struct DV { uint8 lead; uint8 total; uint8 width; uint8 data[lead + total / width]; uint8 tail; };\n"
              "struct DV2 { uint8 lead; uint8 total; uint8 width; uint8 data[(total % width) * 2 + lead]; uint8 tail; };\n")
K_OF_VARIANT = [1, 2, 3]


def enums_for(variant):
    be, bf = ENUM_BASES[variant]
    return [{"k": "enumdef", "n": "E", "kind": "enum", "base": be, "members": MEMBERS_E}, {"k": "enumdef", "n": "F", "kind": "flag", "base": bf, "members": MEMBERS_F}]


EXTRA = {"R": _st([_f("k", U16), _f("m", {"k": "a", "t": U32, "len": ["fixed", 2]})])}


def defs_for(variant, extra=False):
    d = [{"k": "define", "n": "K", "v": K_OF_VARIANT[variant]}, {"k": "structdef", "n": "In", "t": IN_T}] + enums_for(variant) + [{"k": "structdef", "n": n, "t": t} for n, t in VARIANTS[variant].items()]
    if extra:
        d += [{"k": "structdef", "n": n, "t": t} for n, t in EXTRA.items()]
    return d


@st.composite
def history(draw):
    ncs = draw(st.integers(1, 3))
    objs = [{"variant": draw(st.integers(0, 2)), "endian": draw(st.sampled_from("<>")), "compiled": draw(st.booleans())} for _ in range(ncs)]
    ops = []
    n = draw(st.integers(8, 40))
    ninst = 0
    for _ in range(n):
        k = draw(st.sampled_from(["default", "default", "kw", "kwpartial", "pospartial", "parse", "parse", "scratch-union", "set", "mutate", "mutate", "mutate", "dump", "flip", "loadmore", "alias", "failparse", "fresh", "enumop", "enumop", "lend", "extend", "failexpr"]))
        c = draw(st.integers(0, ncs - 1))
        tname = draw(st.sampled_from(["P", "P", "Q", "W", "O1", "A", "QK", "G", "G"]))
        if k in ("default", "kw", "kwpartial", "pospartial", "parse"):
            ops.append([k, c, tname, draw(st.binary(min_size=48, max_size=48)).hex()])
            ninst += 1
        elif k in ("set", "mutate", "dump") and ninst:
            ops.append([k, draw(st.integers(0, ninst - 1)), draw(st.integers(0, 50)), draw(st.integers(0, 255))])
        elif k == "flip":
            ops.append(["flip", c, draw(st.sampled_from("<>"))])
        elif k == "scratch-union":
            ops.append(["scratch-union", c, draw(st.integers(0, 5)), draw(st.integers(1, 255))])
        elif k == "enumop":
            ops.append(["enumop", c, draw(st.sampled_from(["E", "F"])), draw(st.binary(min_size=4, max_size=4)).hex()])
        elif k in ("loadmore", "alias", "failparse", "fresh"):
            ops.append([k, c, tname])
        elif k == "extend":
            ops.append(["extend", c, draw(st.booleans()), draw(st.booleans()), draw(st.integers(1, 255))])
        elif k == "failexpr":
            ops.append(["failexpr", c, draw(st.sampled_from(["DV", "DV2"])), draw(st.integers(0, 5)), draw(st.integers(0, 9)), draw(st.integers(1, 4)), draw(st.integers(0, 5))])
        elif k == "lend":
            ops.append(["lend", c, draw(st.sampled_from(["uint16", "uint32", "int64", "E", "F", "In", "P", "G", "U"])), draw(st.integers(0, 2)), draw(st.binary(min_size=48, max_size=48)).hex()])
    return {"objs": objs, "ops": ops}


# ---------------------------------------------------------------- model helpers

def _paths(sem, t, v, kinds, path=()):
    """Enumerate mutable spots: ('scalar', path) top-level int fields; ('elem', path, i) list elements;
    ('nested', path) int fields of nested structures; ('append', path) list-valued fields."""
    t = sem.res(t)
    out = []
    if t["k"] != "st":
        return out
    for i, f in enumerate(t["fields"]):
        key = refsem.fkey(f, i)
        step = (key, f["name"])  # (key in the model, attribute on the library object; None = folded anonymous member)
        ft = sem.res(f["t"])
        val = v[key]
        if f.get("bits") or (ft["k"] == "s" and refsem.SCALARS[ft["n"]][0] == "int"):
            out.append(("scalar" if not path else "nested", path + (step,), None, f))
        elif ft["k"] == "a" and isinstance(val, list):
            out.append(("append", path + (step,), None, f))
            for j, e in enumerate(val):
                et = sem.res(ft["t"])
                if et["k"] == "s":
                    out.append(("elem", path + (step,), j, f))
                elif et["k"] == "st":
                    out += [(k2 if k2 != "scalar" else "nested", p2, j2, f2) for k2, p2, j2, f2 in _paths(sem, et, e, kinds, path + (step, j))]
                elif et["k"] == "a" and isinstance(e, list):
                    # a row of a multi-dimensional array: its elements, or the fields of its structure elements
                    it = sem.res(et["t"])
                    for jj, ee in enumerate(e):
                        if it["k"] == "s":
                            out.append(("elem", path + (step, j), jj, f))
                        elif it["k"] == "st":
                            out += [(k2 if k2 != "scalar" else "nested", p2, j2, f2) for k2, p2, j2, f2 in _paths(sem, it, ee, kinds, path + (step, j, jj))]
        elif ft["k"] == "st" and ft["kind"] == "struct":
            out += _paths(sem, ft, val, kinds, path + (step,))
    return out


def _get(obj, path):
    for p in path:
        if isinstance(p, int):
            obj = obj[p]
        elif p[1] is not None:  # a folded anonymous member has no attribute of its own: its fields are on the parent
            obj = getattr(obj, p[1])
    return obj


def _mget(v, path):
    for p in path:
        v = v[p] if isinstance(p, int) else v[p[0]]
    return v


def _fit(f, sem, raw):
    if f.get("bits"):
        return raw & ((1 << f["bits"]) - 1)
    t = sem.res(f["t"])
    while t["k"] == "a":
        t = sem.res(t["t"])
    if t["k"] != "s":
        return None
    _, size, _, signed = refsem.SCALARS[t["n"]]
    v = raw & ((1 << (size * 8 - 1)) - 1)
    return v


def run_case(case, ctx):
    m = import_repo()
    objs = []
    for o in case["objs"]:
        cs = m.cstruct(endian=o["endian"])
        defs = defs_for(o["variant"])
        r = lib(cs.load, libside.render(defs) + UNION_TEXT, compiled=o["compiled"])
        if isinstance(r, Err):
            raise Violation("definition-rejected", f"{libside.render(defs)}: {r}", r.where)
        objs.append({"cs": cs, "defs": defs, "endian": o["endian"], "compiled": o["compiled"], "variant": o["variant"], "loaded_more": False})
    inst = []  # {"obj", "model", "c", "t", "origin", "appended"}
    trace = []
    flags = {"mutated_default_nested": False, "default_after_mutation": False}

    def sem_of(c):
        o = objs[c]
        return Sem(o["defs"], {"endian": o["endian"], "align": False, "ptr": "uint64", "consts": {"K": K_OF_VARIANT[o["variant"]]}})

    def check_all(step):
        for idx, it in enumerate(inst):
            got = libside.cplain(it["obj"])
            if got != refsem.canon(it["model"]):
                raise Violation(
                    "instance-changed-behind-its-back",
                    f"after step {step} {trace[-1]}: instance #{idx} ({it['t']} of cstruct {it['c']}, {it['origin']}) holds {got!r}, its model says {refsem.canon(it['model'])!r}; history: {trace}",
                    info={"origin": it["origin"]},
                )
        for c, o in enumerate(objs):
            sem = sem_of(c)
            for tname in ("U", "H"):
                z = lib(lambda: getattr(o["cs"], tname)().dumps())
                if isinstance(z, Err) or any(z):
                    raise Violation("default-not-fresh", f"after step {step} {trace[-1]}: {tname}() of cstruct {c} dumps {z!r}, a default-constructed union / structure holding one is all zero; history: {trace}")
            for tname in ("P", "Q", "W", "O1", "A", "QK", "In", "G"):
                T = getattr(o["cs"], tname)
                z = lib(T)
                want = refsem.canon(sem.default({"k": "ref", "n": tname}))
                if isinstance(z, Err) or libside.cplain(z) != want:
                    raise Violation(
                        "default-not-fresh",
                        f"after step {step} {trace[-1]}: {tname}() of cstruct {c} gives {z if isinstance(z, Err) else libside.cplain(z)!r}, zero value is {want!r}; history: {trace}",
                    )

    for step, op in enumerate(case["ops"]):
        k = op[0]
        trace.append(op[:3] if k in ("default", "kw", "kwpartial", "pospartial", "parse") else op)
        if k in ("default", "kw", "kwpartial", "pospartial", "parse"):
            _, c, tname, hexdata = op
            o = objs[c]
            sem = sem_of(c)
            node = {"k": "ref", "n": tname}
            T = getattr(o["cs"], tname)
            data = bytearray(bytes.fromhex(hexdata))
            if tname in ("Q", "W", "QK"):
                data[0] %= 5
            data = bytes(data)
            if k == "default":
                obj = lib(T)
                model = sem.default(node)
            else:
                try:
                    model, end = sem.decode(node, data, 0)
                except refsem.NonCanonical:
                    continue
                if k == "parse":
                    obj = lib(T, io.BytesIO(data))
                elif k in ("kwpartial", "pospartial"):
                    # only the first field is given (by keyword / positionally); everything else takes the type's zero value
                    f0 = sem.res(node)["fields"][0]
                    first = model[f0["name"]]
                    model = sem.default(node)
                    if isinstance(first, int):
                        model[f0["name"]] = first
                        obj = lib(lambda: T(**{f0["name"]: first})) if k == "kwpartial" else lib(lambda: T(first))
                    else:  # the first member is a structure: given as a library value of its type
                        model[f0["name"]] = first
                        fv = libside.build_value(T.__fields__[0].type, sem, f0["t"], first)
                        obj = lib(lambda: T(**{f0["name"]: fv})) if k == "kwpartial" else lib(lambda: T(fv))
                else:
                    obj = lib(libside.build_value, T, sem, node, model)
            if isinstance(obj, Err):
                raise Violation("operation-raised", f"step {step} {op[:3]}: {obj}; history {trace}", obj.where)
            if k == "parse" and libside.cplain(obj) != refsem.canon(model):
                raise Violation("parse-depends-on-history", f"step {step} {op[:3]}: parsed {libside.cplain(obj)!r}, reference decode under endian {o['endian']} gives {refsem.canon(model)!r}; history {trace}")
            if k in ("default", "kwpartial", "pospartial") and flags["mutated_default_nested"]:
                flags["default_after_mutation"] = True
            inst.append({"obj": obj, "model": copy.deepcopy(model), "c": c, "t": tname, "origin": k, "appended": False})
        elif k in ("set", "mutate"):
            _, idx, sel, raw = op
            if not inst:
                continue
            idx %= len(inst)
            it = inst[idx]
            sem = sem_of(it["c"])
            node = sem.res({"k": "ref", "n": it["t"]})
            spots = _paths(sem, node, it["model"], None)
            want_kinds = ("scalar",) if k == "set" else ("elem", "nested", "append")
            spots = [s for s in spots if s[0] in want_kinds]
            if not spots:
                continue
            kind, path, j, f = spots[sel % len(spots)]
            val = _fit(f, sem, raw)
            if val is None:
                continue
            if kind in ("scalar", "nested"):
                holder = _get(it["obj"], path[:-1])
                r = lib(setattr, holder, path[-1][1], val)
                mh = _mget(it["model"], path[:-1])
                mh[path[-1][0]] = val
            elif kind == "elem":
                lst = _get(it["obj"], path)
                r = lib(lst.__setitem__, j, val)
                _mget(it["model"], path)[j] = val
            else:
                lst = _get(it["obj"], path)
                ft = sem.res(f["t"])
                et = sem.res(ft["t"])
                newel = val if et["k"] == "s" else None
                if newel is None:
                    continue
                r = lib(lst.append, newel)
                _mget(it["model"], path).append(newel)
                it["appended"] = True
            if isinstance(r, Err):
                raise Violation("operation-raised", f"step {step} {kind} at {path}: {r}; history {trace}", r.where)
            trace[-1] = [k, idx, kind, [p if isinstance(p, int) else p[0] for p in path], j, val]
            if len(path) >= 1 and any(not isinstance(p, int) and p[1] is None for p in path):
                ctx.count("mutation:through-folded-anonymous-member")
            if it["origin"] in ("default", "kwpartial", "pospartial") and kind in ("elem", "nested", "append"):
                flags["mutated_default_nested"] = True
        elif k == "dump":
            _, idx, _, _ = op
            if not inst:
                continue
            idx %= len(inst)
            it = inst[idx]
            if it["appended"]:
                continue
            sem = sem_of(it["c"])
            node = {"k": "ref", "n": it["t"]}
            d = lib(it["obj"].dumps)
            try:
                want = bytes(sem.encode(node, it["model"]))
            except (OverflowError, ValueError):
                continue
            if isinstance(d, Err) or d != want:
                raise Violation("dump-depends-on-history", f"step {step}: instance #{idx} dumps {d!r}, reference encoding of its value under the current endianness {want.hex()}; history {trace}")
        elif k == "scratch-union":
            # an untracked default-constructed union (or structure holding one) is changed in place through an array
            # member, a nested structure and its array: the next default construction (checked after every step) is zero
            _, c, sel, val = op
            cs_ = objs[c]["cs"]

            def touch():
                u = cs_.U() if sel % 2 == 0 else cs_.H().u
                if sel in (0, 1):
                    u.arr[sel] = val
                elif sel in (2, 3):
                    u.s.lo = val
                else:
                    u.s.v[sel - 4] = val

            r = lib(touch)
            if isinstance(r, Err):
                raise Violation("operation-raised", f"step {step} changing a default union in place: {r}; history {trace}", r.where)
        elif k == "failexpr":
            # a parse that fails INSIDE the evaluation of a count (division by a zero the data supplies), followed by a parse of
            # a well-formed record with the same type: the second one is what it would be without the first
            _, c, tn, lead, total, width, badlead = op
            Tv = getattr(objs[c]["cs"], tn)
            bad = lib(Tv, bytes([badlead, total, 0]) + bytes(40))
            if not isinstance(bad, Err):
                raise Violation("operation-raised", f"step {step}: {tn} with width 0 returned {bad!r} (a count dividing by zero); history {trace}")
            n_ = lead + total // width if tn == "DV" else (total % width) * 2 + lead
            rec = bytes([lead, total, width]) + bytes(range(1, n_ + 1)) + b"\xEE"
            s_ = io.BytesIO(rec + b"\x55" * 8)
            good = lib(Tv, s_)
            if isinstance(good, Err) or list(good.data) != list(range(1, n_ + 1)) or good.tail != 0xEE or s_.tell() != len(rec):
                raise Violation("parse-depends-on-history", f"step {step}: after a {tn} parse failed with {bad} inside its count expression, {tn}({rec.hex()}) gave {good if isinstance(good, Err) else libside.cplain(good)!r} at {s_.tell()}; expected {n_} data elements, tail 0xEE, {len(rec)} bytes; history {trace}")
        elif k == "extend":
            # a structure that is (or is not) used first and then grows array / nested-structure / row members through the
            # public API: members added later are as private to every instance as the ones it was born with
            _, c, used_first, batch, val = op
            cs_ = objs[c]["cs"]
            nm = f"Ext{step}"
            r = lib(cs_.load, f"struct {nm} {{ uint8 a; uint16 b; }};\n", compiled=objs[c]["compiled"])
            if isinstance(r, Err):
                raise Violation("operation-raised", f"step {step} declaring {nm}: {r}; history {trace}", r.where)
            X = getattr(cs_, nm)

            def extend():
                if used_first:
                    X(), X(a=1), X(b"\x01\x02\x03"), X().dumps()
                new = [("arr", cs_.uint8[3]), ("inner", cs_.H), ("rows", cs_.uint16[2][2])]
                if batch:
                    with X.start_update():
                        for n_, t_ in new:
                            X.add_field(n_, t_)
                else:
                    for n_, t_ in new:
                        X.add_field(n_, t_)
                x, y = X(), X(a=5)
                x.arr[0] = val
                x.inner.t[1] = val
                x.inner.u.arr[2] = val
                x.rows[1][0] = val
                x.rows[0].append(val)
                return x.arr, y.dumps(), X().dumps(), X(a=5).dumps(), len(X)

            r = lib(extend)
            if isinstance(r, Err):
                raise Violation("operation-raised", f"step {step} extending {nm} (used first: {used_first}, batch: {batch}): {r}; history {trace}", r.where)
            _, yd, zd, y2d, ln = r
            if ln != 21 or zd != bytes(21) or yd != b"\x05" + bytes(20) or y2d != yd:
                raise Violation("default-not-fresh", f"step {step}: {nm} grew arr / inner / rows through add_field ({'one start_update batch' if batch else 'one by one'}, {'used before' if used_first else 'not used before'}); after changing those members of ONE instance in place, another instance dumps {yd!r}, a new default {zd!r}, a new {nm}(a=5) {y2d!r} (size {ln}); all of them are zero but a; history {trace}")
        elif k == "enumop":
            # the enum / flag type of THIS object, used directly: parse and dump follow this object's underlying type and
            # current endianness, whatever other objects with a same-named, same-membered enum did in between
            _, c, ename, hexdata = op
            o = objs[c]
            sem = sem_of(c)
            node = {"k": "e", "n": ename}
            data = bytes.fromhex(hexdata)
            model, end = sem.decode(node, data, 0)
            ET = getattr(o["cs"], ename)
            s_ = io.BytesIO(data)
            r = lib(ET, s_)
            if isinstance(r, Err) or libside.cplain(r) != refsem.canon(model) or s_.tell() != end:
                raise Violation("parse-depends-on-history", f"step {step}: {ename}({data.hex()}) of cstruct {c} gave {r!r} at {s_.tell()}, reference under endian {o['endian']}: {model} at {end}; history {trace}")
            d = lib(lambda: ET(model).dumps())
            want = bytes(sem.encode(node, model))
            if isinstance(d, Err) or d != want:
                raise Violation("dump-depends-on-history", f"step {step}: {ename}({model}).dumps() of cstruct {c} gave {d!r}, reference {want.hex()}; history {trace}")
            if ET.cs is not o["cs"]:
                raise Violation("type-bound-to-another-object", f"step {step}: {ename} of cstruct {c} is bound to another cstruct object; history {trace}")
        elif k == "flip":
            _, c, e = op
            objs[c]["cs"].endian = e
            objs[c]["endian"] = e
        elif k == "loadmore":
            _, c, _ = op
            o = objs[c]
            if not o["loaded_more"]:
                extra = [{"k": "structdef", "n": n, "t": t} for n, t in EXTRA.items()]
                r = lib(o["cs"].load, libside.render(extra), compiled=o["compiled"])
                if isinstance(r, Err):
                    raise Violation("definition-rejected", f"step {step}: {r}", r.where)
                o["defs"] = o["defs"] + extra
                o["loaded_more"] = True
        elif k == "alias":
            _, c, tname = op
            r = lib(objs[c]["cs"].add_type, f"Alias{step}", tname)
            if isinstance(r, Err):
                raise Violation("operation-raised", f"step {step} add_type: {r}", r.where)
            r = lib(objs[c]["cs"].load, f"#define K{step} {step + 1}\n")
            if isinstance(r, Err):
                raise Violation("operation-raised", f"step {step} #define: {r}", r.where)
            for c2, o2 in enumerate(objs):
                has = f"K{step}" in o2["cs"].consts
                if has != (c2 == c):
                    raise Violation("constant-leaked", f"step {step}: constant defined on cstruct {c} is {'present' if has else 'absent'} on cstruct {c2}; history {trace}")
            # the alias exists on this object only
            for c2, o2 in enumerate(objs):
                has = f"Alias{step}" in o2["cs"].typedefs
                if has != (c2 == c):
                    raise Violation("alias-leaked", f"step {step}: alias added on cstruct {c} is {'present' if has else 'absent'} on cstruct {c2}; history {trace}")
        elif k == "lend":
            # a type object of cstruct c is registered under a new name on ANOTHER cstruct object (add_type, or a typedef
            # there): the type stays what it was for its owner -- same values, same bytes, same arrays
            _, c, tn, via, hexdata = op
            c2 = (c + 1) % len(objs)
            owner, other = objs[c]["cs"], objs[c2]["cs"]
            Tl = getattr(owner, tn)
            raw = bytes.fromhex(hexdata)
            if tn == "P":
                raw = bytes(sem_of(c).encode({"k": "ref", "n": "P"}, sem_of(c).default({"k": "ref", "n": "P"}))) + raw

            def observe():
                v = lib(Tl, raw)
                arr = lib(lambda: Tl[2](raw))
                return (repr(v) if isinstance(v, Err) else (libside.cplain(v), lib(v.dumps)), repr(arr) if isinstance(arr, Err) else ([libside.cplain(e) for e in arr], lib(arr.dumps)), Tl.cs is owner)

            before_ = observe()
            if via == 1:
                lib(other.add_type, f"Lent{step}", "uint8")
            r = lib(other.add_type, f"Lent{step}", Tl, replace=(via == 1))
            if via == 2 and not isinstance(r, Err):
                r = lib(other.load, f"typedef Lent{step} Lent{step}b;\nstruct UsesLent{step} {{ uint8 x; Lent{step} y; Lent{step}b z[2]; }};\n", compiled=objs[c2]["compiled"])
            if isinstance(r, Err):
                raise Violation("operation-raised", f"step {step} lending {tn} of cstruct {c} to cstruct {c2}: {r}", r.where)
            after_ = observe()
            if after_ != before_:
                raise Violation("type-changed-by-registration-elsewhere", f"step {step}: after registering {tn} of cstruct {c} (endian {objs[c]['endian']}) on cstruct {c2} (endian {objs[c2]['endian']}) the type gives (value+dump, array+dump, owner kept) {after_!r}, before {before_!r}; history {trace}")
            if f"Lent{step}" in owner.typedefs and c2 != c:
                raise Violation("alias-leaked", f"step {step}: a name registered on cstruct {c2} appeared on cstruct {c}")
        elif k == "failparse":
            _, c, tname = op
            T = getattr(objs[c]["cs"], tname)
            r = lib(T, b"\x01")
            if not isinstance(r, Err):
                raise Violation("truncated-parse-returned", f"step {step}: {tname}(b'\\x01') returned {r!r}")
        elif k == "fresh":
            pass
        check_all(step)
    ctx.count(f"objects:{len(objs)}")
    variants = {o["variant"] for o in objs}
    ctx.count("steps", len(case["ops"]))
    if flags["default_after_mutation"]:
        ctx.count("history:default-after-in-place-mutation-of-a-default")
    if any(op[0] == "enumop" for op in case["ops"]):
        ctx.count("history:uses-enum-types-directly")
    multi = len(objs) >= 2 and len(variants) >= 2 and len({op[1] for op in case["ops"] if op[0] in ("default", "kw", "kwpartial", "pospartial", "parse")}) >= 2
    if multi:
        ctx.count("history:interleaves-objects-with-same-named-types")
    if flags["default_after_mutation"] or multi:
        ctx.mark_nontrivial(case)
        ctx.sample({"objs": case["objs"], "ops": [o[:3] for o in case["ops"]]}, "multi" if multi else "single")


def stages(tier):
    q = tier == "quick"
    return [HypStage("histories", history, examples=320 if q else 3000, shards=10 if q else 16)]
