"""C15 — concurrent parsing with shared types is equivalent to sequential parsing (harness-owned schedules)."""
from __future__ import annotations

import io

from hypothesis import strategies as st

from pbt import common, gens, libside, refsem, sched
from pbt.drive import Err, HarnessError, HypStage, Violation, import_repo, lib
from pbt.refsem import S, Sem

ID = "C15"
RULE = (
    "cases: generated definitions rich in expression-length arrays, bit-fields, unions, nested structures and pointers "
    "(dereferenced inside the thread), compiled and interpreted; 2-3 threads, each parsing and dumping ITS OWN bytes "
    "with the SHARED type objects of one cstruct. Schedules are data: the harness runs real threads but only the baton "
    "holder executes; a line tracer active in dissect/cstruct/*, generated readers and generated methods counts source "
    "lines globally and hands the baton over at the scheduled steps. Stage 1 enumerates EVERY single-preemption schedule "
    "(every line step of thread 0 x every other thread) per generated definition; stage 2 draws schedules with up to 4 "
    "preemptions. Oracle: every thread's outcome (canonical value + dumped bytes + dereferenced targets, or exception "
    "class) equals its solo outcome computed first. Non-trivial = the schedule really switched inside library code and "
    "the threads' inputs differ; distinct by (definition, cfg, inputs, schedule)."
)
ASSUMPTIONS = [
    "granularity is the source line (pre-emption between bytecodes of one line is not explored); this is a deterministic exploration of GIL-serialised interleavings, not a stress test",
    "each thread owns its stream; only type objects (and what hangs off them) are shared",
]


@st.composite
def conc_case(draw, with_schedule=False):
    o = gens.opts(max_fields=5, max_depth=1, eof=False, signed_flags=False, array_weight=True, void=False, floats=False, bits_weight=4)
    d = draw(gens.definition(o))
    cfg = draw(gens.config(ptrs=("uint8", "uint16")))
    # make sure at least one expression-length array is present (the shared Expression object is the anchor)
    root = [x for x in d["defs"] if x["n"] == "Root"][0]["t"]
    if not any(f["t"].get("k") == "a" and f["t"]["len"][0] == "expr" for f in root["fields"]) and draw(st.integers(0, 3)):
        used = {f["name"] for f in root["fields"]}
        nn, an = [n for n in ("cnt", "cnt2", "cnt3") if n not in used][0], [n for n in ("dyn", "dyn2", "dyn3") if n not in used][0]
        root["fields"].insert(0, {"name": nn, "t": S("uint8"), "bits": None})
        root["fields"].append({"name": an, "t": {"k": "a", "t": S(draw(st.sampled_from(["uint8", "uint16", "char"]))), "len": ["expr", f"{nn} * 2 + 1", ["bin", "+", ["bin", "*", ["id", nn], ["lit", 2, "2"]], ["lit", 1, "1"]]]}, "bits": None})
    sem = Sem(d["defs"], cfg)
    nthreads = draw(st.sampled_from([2, 2, 3]))
    datas = []
    root_t = sem.res(gens.ROOT)
    ptr_keys = [refsem.fkey(f, i) for i, f in enumerate(root_t["fields"]) if sem.res(f["t"])["k"] == "p" and sem.res(sem.res(f["t"])["t"])["k"] != "p"]
    addr_pick = draw(st.integers(0, 10_000))
    for _ in range(nthreads):
        v = gens.gen_value(draw, sem, gens.ROOT)
        enc = bytes(sem.encode(gens.ROOT, v))
        if ptr_keys and len(enc) > 4:
            # pointers that are dereferenced INSIDE the thread: an address within this thread's own input (the same
            # number in every thread, so per-pointer-class state keyed by address would show)
            span = min(len(enc) - 3, (1 << (8 * refsem.SCALARS[cfg["ptr"]][1])) - 2)  # the address must fit the pointer width
            for kk in ptr_keys:
                v[kk] = 1 + addr_pick % span
            enc = bytes(sem.encode(gens.ROOT, v))
        mask = bytearray(len(enc))
        sem.decode(gens.ROOT, enc, 0, mask)
        datas.append((gens.fill_garbage(draw, enc, mask, tail=False) + bytes(4)).hex())
    from hypothesis import assume

    assume(len(set(datas)) > 1)  # identical inputs cannot show a mix-up
    case = {"defs": d["defs"], "root": "Root", "cfg": cfg, "datas": datas}
    if with_schedule:
        k = draw(st.integers(1, 4))
        # pre-emption points as permille of the run's total number of line steps (resolved at run time), each handing
        # over to a drawn thread
        case["schedule_permille"] = sorted([draw(st.integers(0, 999)), draw(st.integers(0, nthreads - 1))] for _ in range(k))
    if with_schedule == "cold":
        case["cold"] = True
        case.pop("schedule_permille", None)
    return case


def _thunk(T, m, data):
    def run():
        s = io.BytesIO(data)
        obj = T(s)
        out = [obj, obj.dumps(), s.tell()]
        derefs = []
        for f in type(obj).__fields__:
            v = getattr(obj, f._name)
            if isinstance(v, m.Pointer) and 0 < int(v) < len(data) - 2 and not issubclass(v.type, m.Pointer):
                try:
                    derefs.append(libside.plain(v.dereference()))
                except Exception as e:  # noqa: BLE001 - part of the observed outcome
                    derefs.append(type(e).__name__)
        out.append(derefs)
        return out

    return run


def _outcome(res):
    if res[0] == "exc":
        return ("exc", res[1])
    obj, dumped, tell, derefs = res[1]
    return ("ok", libside.cplain(obj), dumped, tell, refsem.canon(derefs))


def run_case(case, ctx):
    m = import_repo()
    cs = common.load(case)
    T = cs.Root
    datas = [bytes.fromhex(x) for x in case["datas"]]
    n = len(datas)
    solo = []
    for d in datas:
        # "running alone": on a freshly loaded definition, so nothing another parse left on the type objects is in it
        Ts = common.load(case).Root
        r = lib(_thunk(Ts, m, d))
        solo.append(("exc", r.type) if isinstance(r, Err) else _outcome(("ok", r)))
    desc = lambda extra=None: common.describe(dict(case, data=None), dict({"inputs": case["datas"]}, **(extra or {})))  # noqa: E731

    def run(preempt, record=False):
        sc = sched.Scheduler(n, preempt, record=record)
        Tr = common.load(case).Root if case.get("cold") else T  # cold: the very first use of these type objects is concurrent
        try:
            res = sc.run([_thunk(Tr, m, d) for d in datas])
        except sched.Stuck as e:
            raise HarnessError(str(e)) from None
        return sc, [_outcome(r) for r in res]

    def judge(sc, outs, preempt):
        for i, (got, want) in enumerate(zip(outs, solo)):
            if got != want:
                raise Violation(
                    "thread-result-differs",
                    f"schedule {sorted(preempt.items())} (switches {sc.switches}): thread {i} got {str(got)[:400]}, alone it gets {str(want)[:400]}: {desc({'schedule': sorted(preempt.items())})}",
                    info={"switches": [s[3] for s in sc.switches]},
                )

    differ = len(set(case["datas"])) > 1
    runs = 0
    switched = 0
    if "schedule_permille" in case and "schedule" not in case:
        base0, outs0 = run({})
        judge(base0, outs0, {})
        total = max(1, sum(base0.steps_of))
        case = dict(case, schedule=sorted([1 + pm * total // 1000, t] for pm, t in case["schedule_permille"]))
    if "schedule" in case:
        preempt = {int(s): int(t) for s, t in case["schedule"]}
        sc, outs = run(preempt)
        judge(sc, outs, preempt)
        runs = 1
        switched = len(sc.switches)
        if switched and differ:
            ctx.mark_nontrivial([case["defs"], case["cfg"], case["datas"], case["schedule"]])
            ctx.count(f"random:switches:{min(switched, 4)}")
    else:
        base, outs = run({})
        judge(base, outs, {})
        n0 = base.steps_of[0]
        for s in range(1, n0 + 1):
            for tgt in range(1, n):
                sc, outs = run({s: tgt})
                judge(sc, outs, {s: tgt})
                runs += 1
                switched += len(sc.switches)
        ctx.count("k1-cold:line-steps-of-thread0" if case.get("cold") else "k1:line-steps-of-thread0", n0)
        if not case.get("cold"):
            # rendezvous: thread 0 is parked INSIDE a function, thread 1 enters the same function and is parked inside it
            # too, thread 0 continues (a save/restore discipline on shared scratch state survives every single pre-emption)
            rec, _ = run({}, record=True)
            by_fn = {}
            for stp, th, fn in rec.trace:
                if th == 0:
                    by_fn.setdefault(fn, []).append(stp)
            fns = sorted(by_fn, key=lambda f_: (-len(by_fn[f_]), f_))[:10]
            rz = 0
            for fn in fns:
                steps0 = by_fn[fn]
                for s1 in sorted({steps0[0], steps0[len(steps0) // 2], steps0[-1]}):
                    sc1, outs1 = run({s1: 1}, record=True)
                    inside = [stp for stp, th, f_ in sc1.trace if th == 1 and f_ == fn and stp > s1]
                    for s2 in sorted({inside[0], inside[len(inside) // 2], inside[-1]}) if inside else []:
                        sc2, outs2 = run({s1: 1, s2: 0})
                        judge(sc2, outs2, {s1: 1, s2: 0})
                        runs += 1
                        rz += 1
            ctx.count("k1:rendezvous-schedules", rz)
        if switched and differ:
            ctx.mark_nontrivial([case["defs"], case["cfg"], case["datas"]])
    ctx.evaluations += max(0, runs - 1)
    ctx.count("schedules-run", runs)
    ctx.count("schedules-that-switched", switched)
    ctx.count("threads:%d" % n)
    ctx.count("reader:" + ("compiled" if getattr(T, "__compiled__", False) else "interpreted"))
    sem = Sem(case["defs"], case["cfg"])
    feats = common.model_features(sem, common.ROOT)
    for f in feats & {"array:expr", "bit-field", "nested-union", "nested-struct", "pointer", "array:null"}:
        ctx.count("has:" + f)
    if switched and differ:
        ctx.sample(desc({"schedules": runs, "switched": switched}), "k1" if "schedule" not in case else "random")


def stages(tier):
    q = tier == "quick"
    return [
        HypStage("k1-exhaustive", conc_case, examples=3 if q else 40, shards=8 if q else 16),
        HypStage("random-k4", lambda: conc_case(with_schedule=True), examples=200 if q else 3000, shards=4 if q else 8),
        HypStage("k1-cold", lambda: conc_case(with_schedule="cold"), examples=1 if q else 10, shards=4 if q else 8),
    ]
