"""C15 — concurrent parsing with shared types is equivalent to sequential parsing (harness-owned schedules)."""
from __future__ import annotations

import io

from hypothesis import strategies as st

from pbt import common, gens, libside, refsem, sched
from pbt.drive import EnumStage, Err, HarnessError, HypStage, Violation, import_repo, lib
from pbt.refsem import S, Sem

ID = "C15"
RULE = (
    "cases: generated definitions rich in expression-length arrays, bit-fields, unions, nested structures and pointers "
    "(dereferenced inside the thread), compiled and interpreted; 2-3 threads, each parsing and dumping ITS OWN bytes "
    "with the SHARED type objects of one cstruct. Schedules are data: the harness runs real threads but only the baton "
    "holder executes; a line tracer active in dissect/cstruct/*, generated readers and generated methods counts source "
    "lines globally and hands the baton over at the scheduled steps. Stage 1 enumerates EVERY single-preemption schedule "
    "(every line step of thread 0 x every other thread) per generated definition; stage 2 draws schedules with up to 4 "
    "preemptions; k1-opcode enumerates every single pre-emption at BYTECODE-INSTRUCTION granularity (sys.monitoring "
    "INSTRUCTION events on every code object of the library and of its generated readers/methods); k2-exhaustive enumerates "
    "EVERY two-preemption schedule 0->1->0 (thread 0 stopped before any of its line steps, thread 1 stopped before any of "
    "its line steps, thread 0 runs to its end, thread 1 finishes) of a fixed family of definitions. Oracle: every thread's outcome (canonical value + dumped bytes + dereferenced targets, or exception "
    "class) equals its solo outcome computed first. Non-trivial = the schedule really switched inside library code and "
    "the threads' inputs differ; distinct by (definition, cfg, inputs, schedule)."
)
ASSUMPTIONS = [
    "granularity is the source line except in stage k1-opcode, where it is the bytecode instruction (the finest pre-emption the GIL allows); this is a deterministic exploration of GIL-serialised interleavings, not a stress test",
    "each thread owns its stream; only type objects (and what hangs off them) are shared",
]


@st.composite
def conc_case(draw, with_schedule=False):
    o = gens.opts(max_fields=5, max_depth=1, eof=False, signed_flags=False, array_weight=True, void=False, floats=False, bits_weight=4)
    d = draw(gens.definition(o))
    cfg = draw(gens.config(ptrs=("uint8", "uint16")))
    # make sure at least one expression-length array is present (the shared Expression object is the anchor)
    root = [x for x in d["defs"] if x["n"] == "Root"][0]["t"]
    if not any(f["t"].get("k") == "a" and f["t"]["len"][0] == "expr" for f in root["fields"]) and draw(st.integers(0, 3)):
        used = {f["name"] for f in root["fields"]}
        nn, an = [n for n in ("cnt", "cnt2", "cnt3") if n not in used][0], [n for n in ("dyn", "dyn2", "dyn3") if n not in used][0]
        root["fields"].insert(0, {"name": nn, "t": S("uint8"), "bits": None})
        root["fields"].append({"name": an, "t": {"k": "a", "t": S(draw(st.sampled_from(["uint8", "uint16", "char"]))), "len": ["expr", f"{nn} * 2 + 1", ["bin", "+", ["bin", "*", ["id", nn], ["lit", 2, "2"]], ["lit", 1, "1"]]]}, "bits": None})
    sem = Sem(d["defs"], cfg)
    nthreads = 2 if with_schedule == "opcodes" else draw(st.sampled_from([2, 2, 3]))
    datas = []
    root_t = sem.res(gens.ROOT)
    ptr_keys = [refsem.fkey(f, i) for i, f in enumerate(root_t["fields"]) if sem.res(f["t"])["k"] == "p" and sem.res(sem.res(f["t"])["t"])["k"] != "p"]
    addr_pick = draw(st.integers(0, 10_000))
    for _ in range(nthreads):
        v = gens.gen_value(draw, sem, gens.ROOT)
        enc = bytes(sem.encode(gens.ROOT, v))
        if ptr_keys and len(enc) > 4:
            # pointers that are dereferenced INSIDE the thread: an address within this thread's own input (the same
            # number in every thread, so per-pointer-class state keyed by address would show)
            span = min(len(enc) - 3, (1 << (8 * refsem.SCALARS[cfg["ptr"]][1])) - 2)  # the address must fit the pointer width
            for kk in ptr_keys:
                v[kk] = 1 + addr_pick % span
            enc = bytes(sem.encode(gens.ROOT, v))
        mask = bytearray(len(enc))
        sem.decode(gens.ROOT, enc, 0, mask)
        datas.append((gens.fill_garbage(draw, enc, mask, tail=False) + bytes(4)).hex())
    from hypothesis import assume

    assume(len(set(datas)) > 1)  # identical inputs cannot show a mix-up
    case = {"defs": d["defs"], "root": "Root", "cfg": cfg, "datas": datas}
    if with_schedule:
        k = draw(st.integers(1, 4))
        # pre-emption points as permille of the run's total number of line steps (resolved at run time), each handing
        # over to a drawn thread
        case["schedule_permille"] = sorted([draw(st.integers(0, 999)), draw(st.integers(0, nthreads - 1))] for _ in range(k))
    if with_schedule == "cold":
        case["cold"] = True
        case.pop("schedule_permille", None)
    if with_schedule == "opcodes":
        case["opcodes"] = True
        case.pop("schedule_permille", None)
    return case


def _thunk(T, m, data):
    def run():
        s = io.BytesIO(data)
        obj = T(s)
        out = [obj, obj.dumps(), s.tell()]
        derefs = []
        for f in type(obj).__fields__:
            v = getattr(obj, f._name)
            if isinstance(v, m.Pointer) and 0 < int(v) < len(data) - 2 and not issubclass(v.type, m.Pointer):
                try:
                    derefs.append(libside.plain(v.dereference()))
                except Exception as e:  # noqa: BLE001 - part of the observed outcome
                    derefs.append(type(e).__name__)
        out.append(derefs)
        return out

    return run


def _outcome(res):
    if res[0] == "exc":
        return ("exc", res[1])
    obj, dumped, tell, derefs = res[1]
    return ("ok", libside.cplain(obj), dumped, tell, refsem.canon(derefs))


def run_case(case, ctx):
    m = import_repo()
    cs = common.load(case)
    T = cs.Root
    datas = [bytes.fromhex(x) for x in case["datas"]]
    n = len(datas)
    solo = []
    for d in datas:
        # "running alone": on a freshly loaded definition, so nothing another parse left on the type objects is in it
        Ts = common.load(case).Root
        r = lib(_thunk(Ts, m, d))
        solo.append(("exc", r.type) if isinstance(r, Err) else _outcome(("ok", r)))
    desc = lambda extra=None: common.describe(dict(case, data=None), dict({"inputs": case["datas"]}, **(extra or {})))  # noqa: E731

    def run(preempt, record=False):
        sc = sched.Scheduler(n, preempt, record=record, opcodes=bool(case.get("opcodes")))
        Tr = common.load(case).Root if case.get("cold") else T  # cold: the very first use of these type objects is concurrent
        try:
            res = sc.run([_thunk(Tr, m, d) for d in datas])
        except sched.Stuck as e:
            raise HarnessError(str(e)) from None
        return sc, [_outcome(r) for r in res]

    def judge(sc, outs, preempt):
        for i, (got, want) in enumerate(zip(outs, solo)):
            if got != want:
                raise Violation(
                    "thread-result-differs",
                    f"schedule {sorted(preempt.items())} (switches {sc.switches}): thread {i} got {str(got)[:400]}, alone it gets {str(want)[:400]}: {desc({'schedule': sorted(preempt.items())})}",
                    info={"switches": [s[3] for s in sc.switches]},
                )

    if case.get("opcodes"):
        ncode = sched.InstructionMonitor.install()
        ctx.count("k1-opcode:instrumented-code-objects", ncode)
        try:
            _explore(case, ctx, run, judge, desc, T)
        finally:
            sched.InstructionMonitor.uninstall()
    else:
        _explore(case, ctx, run, judge, desc, T)


def _explore(case, ctx, run, judge, desc, T):
    n = len(case["datas"])
    differ = len(set(case["datas"])) > 1
    runs = 0
    switched = 0
    if "schedule_permille" in case and "schedule" not in case:
        base0, outs0 = run({})
        judge(base0, outs0, {})
        total = max(1, sum(base0.steps_of))
        case = dict(case, schedule=sorted([1 + pm * total // 1000, t] for pm, t in case["schedule_permille"]))
    if "k2" in case:
        # EVERY two-preemption schedule 0 -> 1 -> 0 of this definition: thread 0 is stopped before its line step s1, thread 1
        # runs up to ITS line step s2 (any of them) and is stopped there, thread 0 runs to its end, thread 1 finishes. This
        # case holds the s1 of one residue class (the stage enumerates all classes).
        chunk, nchunks = case["k2"]
        base, outs = run({})
        judge(base, outs, {})
        n0 = base.steps_of[0]
        pairs = 0
        for s1 in range(1 + chunk, n0 + 1, nchunks):
            sc1, outs1 = run({s1: 1})
            judge(sc1, outs1, {s1: 1})
            n1 = sc1.steps_of[1]
            for s2 in range(s1 + 1, s1 + n1 + 1):
                sc2, outs2 = run({s1: 1, s2: 0})
                judge(sc2, outs2, {s1: 1, s2: 0})
                if len(sc2.switches) == 2:
                    pairs += 1
            runs += 1 + n1
        switched = pairs
        ctx.count("k2:line-steps-of-thread0", n0 if chunk == 0 else 0)
        ctx.count("k2:schedules-with-both-switches", pairs)
        if pairs and differ:
            ctx.mark_nontrivial([case["defs"], case["cfg"], case["datas"], case["k2"]])
    elif "schedule" in case:
        preempt = {int(s): int(t) for s, t in case["schedule"]}
        sc, outs = run(preempt)
        judge(sc, outs, preempt)
        runs = 1
        switched = len(sc.switches)
        if switched and differ:
            ctx.mark_nontrivial([case["defs"], case["cfg"], case["datas"], case["schedule"]])
            ctx.count(f"random:switches:{min(switched, 4)}")
    else:
        base, outs = run({})
        judge(base, outs, {})
        n0 = base.steps_of[0]
        for s in range(1, n0 + 1):
            for tgt in range(1, n):
                sc, outs = run({s: tgt})
                judge(sc, outs, {s: tgt})
                runs += 1
                switched += len(sc.switches)
        ctx.count("k1-opcode:instruction-steps-of-thread0" if case.get("opcodes") else "k1-cold:line-steps-of-thread0" if case.get("cold") else "k1:line-steps-of-thread0", n0)
        if not case.get("cold") and not case.get("opcodes"):
            # rendezvous: thread 0 is parked INSIDE a function, thread 1 enters the same function and is parked inside it
            # too, thread 0 continues (a save/restore discipline on shared scratch state survives every single pre-emption)
            rec, _ = run({}, record=True)
            by_fn = {}
            for stp, th, fn in rec.trace:
                if th == 0:
                    by_fn.setdefault(fn, []).append(stp)
            fns = sorted(by_fn, key=lambda f_: (-len(by_fn[f_]), f_))[:10]
            rz = 0
            for fn in fns:
                steps0 = by_fn[fn]
                for s1 in sorted({steps0[0], steps0[len(steps0) // 2], steps0[-1]}):
                    sc1, outs1 = run({s1: 1}, record=True)
                    inside = [stp for stp, th, f_ in sc1.trace if th == 1 and f_ == fn and stp > s1]
                    for s2 in sorted({inside[0], inside[len(inside) // 2], inside[-1]}) if inside else []:
                        sc2, outs2 = run({s1: 1, s2: 0})
                        judge(sc2, outs2, {s1: 1, s2: 0})
                        runs += 1
                        rz += 1
            ctx.count("k1:rendezvous-schedules", rz)
        if switched and differ:
            ctx.mark_nontrivial([case["defs"], case["cfg"], case["datas"]])
    ctx.evaluations += max(0, runs - 1)
    ctx.count("schedules-run", runs)
    ctx.count("schedules-that-switched", switched)
    ctx.count("threads:%d" % n)
    ctx.count("reader:" + ("compiled" if getattr(T, "__compiled__", False) else "interpreted"))
    sem = Sem(case["defs"], case["cfg"])
    feats = common.model_features(sem, common.ROOT)
    for f in feats & {"array:expr", "bit-field", "nested-union", "nested-struct", "pointer", "array:null"}:
        ctx.count("has:" + f)
    if switched and differ:
        ctx.sample(desc({"schedules": runs, "switched": switched}), "k2" if "k2" in case else "k1-opcode" if case.get("opcodes") else "k1" if "schedule" not in case else "random")


def _sc(n):
    return {"k": "s", "n": n}


def _fd(name, t, bits=None):
    return {"name": name, "t": t, "bits": bits}


def _arr(t, ln):
    return {"k": "a", "t": t, "len": ln}


def _sd(name, fields, kind="struct"):
    return {"k": "structdef", "n": name, "t": {"k": "st", "kind": kind, "name": None, "fields": fields}}


_IDN = lambda n: ["expr", n, ["id", n]]  # noqa: E731
_SUM = ["expr", "n + m", ["bin", "+", ["id", "n"], ["id", "m"]]]
_CNT = ["expr", "cnt * 2 + 1", ["bin", "+", ["bin", "*", ["id", "cnt"], ["lit", 2, "2"]], ["lit", 1, "1"]]]

# (name, definitions, the two threads' inputs, pointer type)
K2_FAMILY = [
    ("expr", [_sd("Root", [_fd("cnt", _sc("uint8")), _fd("dyn", _arr(_sc("char"), _CNT))])], ["0041000000", "01424344000000"], "uint32"),
    ("bits", [_sd("Root", [_fd("a", _sc("uint8"), 3), _fd("b", _sc("uint8"), 5), _fd("c", _sc("uint16"), 4), _fd("d", _sc("uint16"), 12), _fd("e", _sc("uint8"))])], ["ab34127f", "5cfedc01"], "uint32"),
    ("nested", [_sd("In", [_fd("a", _sc("uint8")), _fd("b", _sc("uint16"))]), _sd("Root", [_fd("in", {"k": "ref", "n": "In"}), _fd("n", _sc("uint8")), _fd("arr", _arr({"k": "ref", "n": "In"}, _IDN("n")))])], ["01020301040506", "0908070211121321222300"], "uint32"),
    ("union-str", [_sd("U", [_fd("a", _sc("uint16")), _fd("b", _arr(_sc("uint8"), ["fixed", 2]))], "union"), _sd("Root", [_fd("u", {"k": "ref", "n": "U"}), _fd("s", _arr(_sc("char"), ["null"]))])], ["1234616200", "fedc78797a00"], "uint32"),
    ("enum-ptr", [{"k": "enumdef", "n": "E", "kind": "enum", "base": "uint8", "members": [["A", 0], ["B", 1], ["C", 7]]}, _sd("Root", [_fd("e", {"k": "e", "n": "E"}), _fd("es", _arr({"k": "e", "n": "E"}, ["fixed", 2])), _fd("p", {"k": "p", "t": _sc("uint16")}), _fd("t", _sc("uint16"))])], ["0107000434120000", "07000905cdab0000"], "uint8"),
    ("two-counts", [_sd("Root", [_fd("n", _sc("uint8")), _fd("m", _sc("uint8")), _fd("x", _arr(_sc("uint16"), _SUM)), _fd("w", _arr(_sc("wchar"), ["null"]))])], ["01010100020041000000", "0200030004004200430000 00".replace(" ", "")], "uint32"),
    # rows whose length is data-dependent (the count expression hangs off the shared ROW type) and a counted array of terminated strings
    ("rows", [_sd("Root", [_fd("n", _sc("uint8")), _fd("rows", _arr(_arr(_sc("uint8"), _IDN("n")), ["fixed", 3])), _fd("names", _arr(_arr(_sc("char"), ["null"]), _IDN("n"))), _fd("t", _sc("uint8"))])], ["01111213610077", "02212223242526414200430088"], "uint32"),
]


def k2_cases(tier):
    q = tier == "quick"
    fam = K2_FAMILY[:1] if q else K2_FAMILY
    nchunks = 8 if q else 16

    def gen():
        for name, defs, datas, ptr in fam:
            for compiled in (False, True):
                for endian in ("<",) if q else ("<", ">"):
                    for chunk in range(nchunks):
                        yield {"defs": defs, "root": "Root", "cfg": {"endian": endian, "align": False, "ptr": ptr, "compiled": compiled}, "datas": list(datas), "k2": [chunk, nchunks], "family": name}

    return gen


def cold_family_cases():
    """First use of freshly loaded type objects is concurrent: every single pre-emption, every family member, both readers
    (lazily initialised per-type state that is published before it is complete shows only here)."""
    for name, defs, datas, ptr in K2_FAMILY:
        for compiled in (False, True):
            for endian in ("<", ">"):
                yield {"defs": defs, "root": "Root", "cfg": {"endian": endian, "align": False, "ptr": ptr, "compiled": compiled}, "datas": list(datas), "cold": True, "family": name}


def stages(tier):
    q = tier == "quick"
    return [
        HypStage("k1-exhaustive", conc_case, examples=3 if q else 40, shards=8 if q else 16),
        HypStage("random-k4", lambda: conc_case(with_schedule=True), examples=200 if q else 3000, shards=4 if q else 8),
        HypStage("k1-cold", lambda: conc_case(with_schedule="cold"), examples=1 if q else 10, shards=4 if q else 8),
        HypStage("k1-opcode", lambda: conc_case(with_schedule="opcodes"), examples=1 if q else 6, shards=4 if q else 16),
        EnumStage("k1-cold-family", cold_family_cases, shards=8, scope="every single pre-emption at source-line granularity of the FIRST concurrent use of freshly loaded types: the seven definitions of K2_FAMILY x both readers x both byte orders"),
        EnumStage("k2-exhaustive", k2_cases(tier), shards=16, scope="every two-preemption schedule 0->1->0 at source-line granularity of the fixed definition family (K2_FAMILY: %s) x both readers, two threads" % ("first member" if q else "all seven members x both byte orders")),
    ]
