"""C05 — scalar codecs implement the standard encodings under the current endianness."""
from __future__ import annotations

import io
import struct

from hypothesis import strategies as st

from pbt import libside, refsem
from pbt.drive import EnumStage, Err, HarnessError, HypStage, Violation, import_repo, lib
from pbt.refsem import S, Sem

ID = "C05"
RULE = (
    "cases: (a) every built-in scalar name and every alias of the typedef table (multi-word names through cs.resolve) x "
    "endian in {<, >, !} x values - exhaustive for 8-bit (and 16-bit in thorough) types, boundary + pseudo-random "
    "patterns for wider ones, float bit patterns, all 256 chars, BMP code units for wchar, LEB128 exhaustive on a "
    "symmetric range plus magnitudes up to 2^200 and non-minimal encodings on decode; (b) histories - generated "
    "operation lists on one cstruct: load definitions (compiled or not), flip cs.endian, parse/dump scalars, arrays and "
    "structures. Oracle: an alias table written from the *names* (width, signedness), int.from_bytes/to_bytes, "
    "struct, str.encode('utf-16-le/be'), a reference LEB128 codec; in histories every result equals the reference under "
    "the endianness current at that step. Non-trivial = width > 1 byte with non-palindromic bytes, or sign bit set, or "
    "multi-byte LEB128; history with an endian flip after a compiled structure was already used; distinct by "
    "(type name, endian, value) / operation list."
)
ASSUMPTIONS = [
    "C keyword spellings follow the library's documented LLP64 reading (long = 32 bit); 'unsigned char'/CHAR are the raw-byte char type, 'signed char'/UCHAR/uchar integers: these rows are trusted from the library's table, all others are derived from the names",
    "native byte-order codes '@' and '=' are outside the claimed domain",
]

# name -> (kind, bytes, signed) derived from the names
ALIASES = {}


def _add(names, kind, size, signed=None):
    for n in names.split("|"):
        ALIASES[n] = (kind, size, signed)


for bits in (8, 16, 32, 64, 128):
    _add(f"int{bits}|int{bits}_t|INT{bits}|__int{bits}", "int", bits // 8, True)
    _add(f"uint{bits}|uint{bits}_t|UINT{bits}|unsigned __int{bits}", "int", bits // 8, False)
_add("int24", "int", 3, True)
_add("uint24", "int", 3, False)
_add("int48", "int", 6, True)
_add("uint48", "int", 6, False)
_add("short|signed short|SHORT", "int", 2, True)
_add("unsigned short|USHORT|ushort|WORD|_WORD|u2|__u16", "int", 2, False)
_add("int|signed int|INT|LONG32", "int", 4, True)
_add("unsigned int|UINT|uint|DWORD|_DWORD|u4|__u32", "int", 4, False)
_add("long long|signed long long|LONGLONG|LONG64", "int", 8, True)
_add("unsigned long long|ULONGLONG|ULONG64|QWORD|_QWORD|u8|__u64", "int", 8, False)
_add("OWORD|_OWORD|u16", "int", 16, False)
_add("BYTE|_BYTE|u1|__u8", "int", 1, False)
TRUSTED = {"long": ("int", 4, True), "signed long": ("int", 4, True), "unsigned long": ("int", 4, False), "LONG": ("int", 4, True), "ULONG": ("int", 4, False), "ulong": ("int", 4, False),
           "signed char": ("int", 1, True), "UCHAR": ("int", 1, False), "uchar": ("int", 1, False), "unsigned char": ("char", 1, None), "CHAR": ("char", 1, None)}
ALIASES.update(TRUSTED)
_add("char", "char", 1)
_add("wchar|WCHAR|wchar_t", "wchar", 2)
ALIASES.update({"float16": ("float", 2, "e"), "float": ("float", 4, "f"), "double": ("float", 8, "d"), "uleb128": ("leb", None, False), "ileb128": ("leb", None, True), "void": ("void", 0, None)})


def _ints_for(size, signed, tier, salt):
    bits = size * 8
    lo, hi = (-(1 << (bits - 1)), (1 << (bits - 1)) - 1) if signed else (0, (1 << bits) - 1)
    if size == 1 or (size == 2 and tier == "thorough"):
        return range(lo, hi + 1)
    vals = {lo, lo + 1, -1 if signed else 1, 0, 1, 2, 0x7F, 0x80, 0xFF, 0x100, 0x1234 & hi, hi - 1, hi, hi >> 1, (hi >> 1) + 1, int("0102030405060708090a0b0c0d0e0f10"[: size * 2], 16) & hi}
    x = 0x9E3779B97F4A7C15 ^ salt
    for _ in range(60 if tier == "quick" else 600):
        x = (x * 6364136223846793005 + 1442695040888963407) & ((1 << 128) - 1)
        v = x & ((1 << bits) - 1)
        vals.add(v + lo if signed else v)
    return sorted(v for v in vals if lo <= v <= hi)


def table_cases(tier):
    def gen():
        for name, (kind, size, info) in sorted(ALIASES.items()):
            for endian in "<>!":
                yield {"name": name, "endian": endian, "tier": tier}

    return gen


def leb_ref_encode(v, signed):
    return Sem([], {"endian": "<"}).enc_leb(v, signed)


def _run_table(case, ctx):
    m = import_repo()
    name, endian, tier = case["name"], case["endian"], case["tier"]
    kind, size, info = ALIASES[name]
    cs = m.cstruct(endian=endian)
    if name not in cs.typedefs:
        ctx.count("table:name-not-in-library")
        return
    T = lib(cs.resolve, name)
    if isinstance(T, Err):
        raise Violation("alias-unresolvable", f"cs.resolve({name!r}) raised {T}", T.where)
    bo = "little" if endian == "<" else "big"
    n = 0
    trusted = name in TRUSTED

    def bad(what):
        raise Violation(f"codec:{kind}", f"{name!r} ({'trusted row' if trusted else 'derived from name'}: {kind} {size} bytes info={info}) endian {endian!r}: {what}")

    if kind == "int":
        if T.size != size:
            bad(f"size {T.size}")
        for v in _ints_for(size, info, tier, hash(name) & 0xFFFF):
            enc = v.to_bytes(size, bo, signed=info)
            got = lib(T, enc)
            if isinstance(got, Err) or int(got) != v:
                bad(f"decode {enc.hex()} -> {got!r}, expected {v}")
            out = lib(T.dumps, v)
            if isinstance(out, Err) or out != enc:
                bad(f"encode {v} -> {out!r}, expected {enc.hex()}")
            n += 1
            if size > 1 and enc != enc[::-1]:
                ctx.mark_nontrivial([name, endian, v])
    elif kind == "float":
        fmt = (">" if endian != "<" else "<") + info
        pats = set()
        x = 0x243F6A8885A308D3 ^ (hash(name) & 0xFFFF)
        for _ in range(300 if tier == "quick" else 5000):
            x = (x * 6364136223846793005 + 1442695040888963407) & ((1 << 64) - 1)
            pats.add((x >> 3).to_bytes(8, "big")[:size])
        pats |= {bytes(size), b"\x80" + bytes(size - 1), struct.pack(">" + info, 1.0), struct.pack(">" + info, -2.5), struct.pack(">" + info, float("inf"))}
        for raw in sorted(pats):
            want = struct.unpack(fmt, raw)[0]
            got = lib(T, raw)
            if isinstance(got, Err):
                bad(f"decode {raw.hex()} raised {got}")
            if want != want:
                if float(got) == float(got):
                    bad(f"decode {raw.hex()} -> {got!r}, expected NaN")
                continue
            if struct.pack("<d", float(got)) != struct.pack("<d", want):
                bad(f"decode {raw.hex()} -> {got!r}, expected {want!r}")
            out = lib(T.dumps, want)
            if isinstance(out, Err) or out != struct.pack(fmt, want):
                bad(f"encode {want!r} -> {out!r}, expected {struct.pack(fmt, want).hex()}")
            n += 1
            if raw != raw[::-1]:
                ctx.mark_nontrivial([name, endian, raw.hex()])
    elif kind == "char":
        for b in range(256):
            got = lib(T, bytes([b]))
            if isinstance(got, Err) or bytes(got) != bytes([b]):
                bad(f"decode {b:#x} -> {got!r}")
            out = lib(T.dumps, bytes([b]))
            if isinstance(out, Err) or out != bytes([b]):
                bad(f"encode {bytes([b])!r} -> {out!r}")
            n += 1
            for how, src in (("stream", io.BytesIO(bytes([b, 0x41]))), ("bytearray", bytearray([b])), ("reads", None)):
                got = lib(T.reads, bytes([b])) if src is None else lib(T, src)
                if isinstance(got, Err) or bytes(got) != bytes([b]):
                    bad(f"decode {b:#x} through {how} -> {got!r}")
        arr = bytes(range(256))
        got = lib(T[256], arr)
        if isinstance(got, Err) or bytes(got) != arr or lib(T[256].dumps, got) != arr:
            bad(f"char[256] over all byte values -> {got!r}")
        for how, mk in (("stream", lambda: T[256](io.BytesIO(arr + b"zz"))), ("bytearray", lambda: T[256](bytearray(arr))), ("reads", lambda: T[256].reads(arr))):
            got = lib(mk)
            if isinstance(got, Err) or bytes(got) != arr:
                bad(f"char[256] over all byte values through {how} -> {got!r}")
        body = bytes(range(1, 256))
        st_ = io.BytesIO(body + b"\x00tail")
        got = lib(T[None], st_)
        if isinstance(got, Err) or bytes(got) != body or st_.tell() != 256 or lib(T[None].dumps, got) != body + b"\x00":
            bad(f"char[] over bytes 1..255 + terminator -> {got!r}, stream left at {st_.tell()}")
        ctx.mark_nontrivial([name, endian, "all256"])
    elif kind == "wchar":
        codec = "utf-16-le" if endian == "<" else "utf-16-be"
        step = 1 if tier == "thorough" else 37
        for cp in list(range(0, 0xD800, step)) + list(range(0xE000, 0x10000, step)) + [0xD7FF, 0xE000, 0xFFFF, 0x20AC, 0xFEFF, 0xFFFE, 0xFEFE]:
            ch = chr(cp)
            enc = ch.encode(codec)
            got = lib(T, enc)
            if isinstance(got, Err) or str(got) != ch:
                bad(f"decode {enc.hex()} -> {got!r}, expected U+{cp:04X}")
            out = lib(T.dumps, ch)
            if isinstance(out, Err) or out != enc:
                bad(f"encode U+{cp:04X} -> {out!r}, expected {enc.hex()}")
            n += 1
            if enc != enc[::-1]:
                ctx.mark_nontrivial([name, endian, cp])
        for s4 in ("\ufeffab\ufeff", "\ufffe\ufeffxy", "ab\ufeff\ufffe"):  # byte-order marks are ordinary code units
            enc = s4.encode(codec)
            got = lib(T[4], io.BytesIO(enc))
            if isinstance(got, Err) or str(got) != s4 or lib(T[4].dumps, got) != enc:
                bad(f"wchar[4] {enc.hex()} -> {got!r}, expected {s4!r}")
            st_ = io.BytesIO(enc + b"\x00\x00rest")
            got = lib(T[None], st_)
            if isinstance(got, Err) or str(got) != s4 or st_.tell() != 10 or lib(T[None].dumps, got) != enc + b"\x00\x00":
                bad(f"wchar[] {enc.hex()}0000 -> {got!r} (stream left at {st_.tell()}), expected {s4!r}")
        s = "a€\U0001F600z"  # incl. a surrogate pair: 5 code units
        enc = s.encode(codec)
        got = lib(T[5], enc)
        if isinstance(got, Err) or str(got) != s or lib(T[5].dumps, got) != enc:
            bad(f"wchar[5] {enc.hex()} -> {got!r}, expected {s!r}")
    elif kind == "leb":
        rng = 3000 if tier == "quick" else 70000
        vals = list(range(-rng if info else 0, rng + 1))
        x = 0x13198A2E03707344
        for _ in range(200 if tier == "quick" else 3000):
            x = (x * 6364136223846793005 + 1442695040888963407) & ((1 << 256) - 1)
            mag = x >> (x % 200)
            vals.append(-mag if (info and x & 1) else mag)
        for k_ in range(0, 81):
            for d_ in (-2, -1, 0, 1, 2):
                mag = (1 << k_) + d_
                if mag >= 0:
                    vals.append(mag)
                    if info:
                        vals.append(-mag)
        for v in vals:
            enc = leb_ref_encode(v, info)
            st_ = io.BytesIO(enc + b"\xff")
            got = lib(T, st_)
            if isinstance(got, Err) or int(got) != v or st_.tell() != len(enc):
                bad(f"decode {enc.hex()} -> {got!r} (stream left at {st_.tell()}), expected {v} and {len(enc)} bytes consumed")
            out = lib(T.dumps, v)
            if isinstance(out, Err) or out != enc:
                bad(f"encode {v} -> {out!r}, expected canonical {enc.hex()}")
            n += 1
            if len(enc) >= 2:
                ctx.mark_nontrivial([name, endian, v])
        # non-minimal encodings still decode to the value (sign extension from the last byte)
        for v in (0, 1, 63, 64, -1 if info else 127, -64 if info else 128, 300):
            enc = bytearray(leb_ref_encode(v, info))
            enc[-1] |= 0x80
            enc.append(0x7F if (info and v < 0) else 0x00)
            got = lib(T, bytes(enc))
            if isinstance(got, Err) or int(got) != v:
                bad(f"decode non-minimal {bytes(enc).hex()} -> {got!r}, expected {v}")
    elif kind == "void":
        got = lib(T, b"\x01")
        if isinstance(got, Err) or lib(T.dumps, got) != b"":
            bad(f"void -> {got!r}")
        n = 1
    ctx.evaluations += max(0, n - 1)
    ctx.count(f"table:{kind}:{'trusted' if trusted else 'derived'}")
    if kind in ("int", "wchar", "float", "leb"):
        ctx.sample({"type": name, "endian": endian, "values_checked": n}, kind)


# ---------------------------------------------------------------- histories

STRUCTS = [
    ("A", "struct A { uint16 a; uint32 b; wchar c; float d; uint24 e; uint16 f : 4; uint16 g : 12; int64 h[2]; };",
     {"k": "st", "kind": "struct", "name": None, "fields": [
         {"name": "a", "t": S("uint16"), "bits": None}, {"name": "b", "t": S("uint32"), "bits": None}, {"name": "c", "t": S("wchar"), "bits": None},
         {"name": "d", "t": S("float"), "bits": None}, {"name": "e", "t": S("uint24"), "bits": None}, {"name": "f", "t": S("uint16"), "bits": 4},
         {"name": "g", "t": S("uint16"), "bits": 12}, {"name": "h", "t": {"k": "a", "t": S("int64"), "len": ["fixed", 2]}, "bits": None}]}),
    ("B", "struct B { uint8 n; uint16 v[n]; wchar s[]; int48 t; };",
     {"k": "st", "kind": "struct", "name": None, "fields": [
         {"name": "n", "t": S("uint8"), "bits": None}, {"name": "v", "t": {"k": "a", "t": S("uint16"), "len": ["expr", "n", ["id", "n"]]}, "bits": None},
         {"name": "s", "t": {"k": "a", "t": S("wchar"), "len": ["null"]}, "bits": None}, {"name": "t", "t": S("int48"), "bits": None}]}),
    ("C", "struct C { uint24 i[2]; wchar w[2]; double q[2]; char x[4]; char z[]; uint16 p[]; uint24 r[]; int32 tail; };",
     {"k": "st", "kind": "struct", "name": None, "fields": [
         {"name": "i", "t": {"k": "a", "t": S("uint24"), "len": ["fixed", 2]}, "bits": None}, {"name": "w", "t": {"k": "a", "t": S("wchar"), "len": ["fixed", 2]}, "bits": None},
         {"name": "q", "t": {"k": "a", "t": S("double"), "len": ["fixed", 2]}, "bits": None}, {"name": "x", "t": {"k": "a", "t": S("char"), "len": ["fixed", 4]}, "bits": None},
         {"name": "z", "t": {"k": "a", "t": S("char"), "len": ["null"]}, "bits": None}, {"name": "p", "t": {"k": "a", "t": S("uint16"), "len": ["null"]}, "bits": None},
         {"name": "r", "t": {"k": "a", "t": S("uint24"), "len": ["null"]}, "bits": None}, {"name": "tail", "t": S("int32"), "bits": None}]}),
]
SCAL = ["uint16", "int32", "uint24", "uint64", "float", "double", "wchar", "int128", "float16"]


@st.composite
def history_case(draw):
    ops = []
    loaded = set()
    n = draw(st.integers(3, 14))
    for _ in range(n):
        k = draw(st.sampled_from(["flip", "flip", "load", "scalar", "scalar", "array", "array", "struct", "struct", "struct", "redump"]))
        if k == "flip":
            ops.append(["flip", draw(st.sampled_from(["<", ">", "!"]))])
        elif k == "load":
            i = draw(st.integers(0, len(STRUCTS) - 1))
            if i not in loaded:
                loaded.add(i)
                ops.append(["load", i, draw(st.booleans())])
        elif k == "scalar":
            ops.append(["scalar", draw(st.sampled_from(SCAL)), draw(st.binary(min_size=16, max_size=16)).hex()])
        elif k == "array":
            ops.append(["array", draw(st.sampled_from(["uint16", "int32", "uint24", "wchar", "uleb128"])), draw(st.sampled_from([1, 2, 3, "null", "eof"])), draw(st.binary(min_size=12, max_size=12)).hex()])
        elif k == "redump":
            ops.append(["redump", draw(st.integers(0, 20))])
        elif loaded:
            i = draw(st.sampled_from(sorted(loaded)))
            ops.append(["struct", i, draw(st.integers(0, 3)), draw(st.binary(min_size=40, max_size=40)).hex()])
    return {"start": draw(st.sampled_from(["<", ">", "!"])), "ops": ops}


def _sem(endian):
    return Sem([], {"endian": "<" if endian == "<" else ">", "align": False, "ptr": "uint64"})


def _run_history(case, ctx):
    m = import_repo()
    cs = m.cstruct(endian=case["start"])
    cur = case["start"]
    flips_after_compiled_use = 0
    compiled_used = False
    kept = []  # (library object, its type node, library type, plain reference value): dumped again later, under the endianness of THAT moment
    for step, op in enumerate(case["ops"]):
        what = f"step {step} {op[:3]} under endian {cur!r} (history: {[o[:3] for o in case['ops'][: step + 1]]})"
        if op[0] == "flip":
            cs.endian = op[1]
            if compiled_used and (op[1] == "<") != (cur == "<"):
                flips_after_compiled_use += 1
            cur = op[1]
            continue
        if op[0] == "load":
            r = lib(cs.load, STRUCTS[op[1]][1], compiled=op[2])
            if isinstance(r, Err):
                raise Violation("definition-rejected", f"{what}: {r}", r.where)
            continue
        sem = _sem(cur)
        if op[0] == "redump":
            if kept:
                obj_, t_, T_, want_ = kept[op[1] % len(kept)]
                out = lib(T_.dumps, obj_)
                wantb = bytes(sem.encode(t_, want_))
                if isinstance(out, Err) or out != wantb:
                    raise Violation("history:wrong-encoding", f"{what}: an object parsed earlier dumps {out!r}, reference encoding of its value under the endianness current NOW {wantb.hex()}")
                ctx.count("history:redump-of-an-earlier-object")
            continue
        if op[0] == "scalar":
            t = S(op[1])
            T = getattr(cs, op[1])
            data = bytes.fromhex(op[2])
        elif op[0] == "array":
            form = op[2]
            data = bytes.fromhex(op[3])
            if form == "null":
                t = {"k": "a", "t": S(op[1]), "len": ["null"]}
                T = getattr(cs, op[1])[None]
                esz = refsem.SCALARS[op[1]][1] or 1
                data = data[: 3 * esz] + bytes(esz) + b"\xee"
            elif form == "eof":
                t = {"k": "a", "t": S(op[1]), "len": ["eof"]}
                esz = refsem.SCALARS[op[1]][1] or 1
                hn = f"EofHolder_{op[1]}"
                if hn not in cs.typedefs:
                    r = lib(cs.load, f"struct {hn} {{ {op[1]} x[EOF]; }};", compiled=bool(step % 2))
                    if isinstance(r, Err):
                        raise Violation("definition-rejected", f"{what}: {r}", r.where)
                T = getattr(cs, hn)
                t = {"k": "st", "kind": "struct", "name": None, "fields": [{"name": "x", "t": t, "bits": None}]}
                data = data[: (len(data) // esz) * esz]
                if op[1] == "uleb128":
                    data = bytes(b & 0x7F for b in data)
            else:
                t = {"k": "a", "t": S(op[1]), "len": ["fixed", form]}
                T = getattr(cs, op[1])[form]
        else:
            name, _, t = STRUCTS[op[1]]
            T = getattr(cs, name)
            data = bytearray(bytes.fromhex(op[3]))
            if name == "B":
                data[0] = op[2]
                z = 1 + 2 * op[2] + 6
                data[z : z + 2] = b"\x00\x00"
            if name == "C":
                data = bytearray(bytes(b | 1 for b in data[:30]) + b"zz\x00" + b"\x01\x02\x03\x04\x00\x00" + b"\x05\x06\x07\x00\x00\x00" + bytes(data[30:34]))
                data[6:10] = "h\u20ac".encode("utf-16-le" if cur == "<" else "utf-16-be")
                data[10:26] = struct.pack(("<" if cur == "<" else ">") + "dd", 1.5, -2.25)
            data = bytes(data)
            if getattr(T, "__compiled__", False):
                compiled_used = True
        try:
            want, end = sem.decode(t, data, 0)
        except (refsem.NonCanonical, refsem.Short):
            ctx.count("history:input-not-accepted")
            continue
        s = io.BytesIO(data)
        got = lib(T, s)
        if isinstance(got, Err):
            raise Violation("history:parse-raised", f"{what}: {got}", got.where)
        if libside.cplain(got) != refsem.canon(want) or s.tell() != end:
            raise Violation("history:wrong-endianness-or-value", f"{what}: parsed {libside.cplain(got)!r} consumed {s.tell()}, reference under the current endianness {refsem.canon(want)!r} consumed {end}; data {data.hex()}")
        if refsem.has_nan(want):
            continue
        out = lib(T.dumps, got)
        wantb = bytes(sem.encode(t, want))
        if isinstance(out, Err) or out != wantb:
            raise Violation("history:wrong-encoding", f"{what}: dumps {out!r}, reference {wantb.hex()}")
        if len(kept) < 8:
            kept.append((got, t, T, want))
        if op[0] == "array" and op[2] in ("null", "eof"):
            ctx.count(f"history:array:{op[2]}:{op[1]}")
    ctx.count("history:cases")
    if flips_after_compiled_use:
        ctx.count("history:flip-after-compiled-struct-used")
        ctx.mark_nontrivial(case)
        ctx.sample({"start": case["start"], "ops": [o[:3] for o in case["ops"]]}, "history")


WSTRINGS = ["", "A", "h\u00e9llo", "\u20ac", "\U0001f600", "a\U0001f600b", "\U0001f600\U00010000", "\ud7ff\ue000", "x\U0010ffff", "\uffff\U0001d11e\u0001"]


def wstring_cases():
    """wchar ARRAYS are UTF-16 text: a character outside the BMP is two code units (a surrogate pair), which decode to ONE
    character and encode back to the same four bytes, whichever way the array is delimited."""
    for text in WSTRINGS:
        for endian in "<>!":
            for form in ("fixed", "null", "expr", "eof", "standalone-null", "standalone-fixed"):
                for compiled in (False, True):
                    yield {"wstring": text, "endian": endian, "form": form, "compiled": compiled}


def _run_wstring(case, ctx):
    m = import_repo()
    text, form = case["wstring"], case["form"]
    codec = "utf-16-le" if case["endian"] == "<" else "utf-16-be"
    enc = text.encode(codec)
    units = len(enc) // 2
    cs = m.cstruct(endian=case["endian"])
    what = f"wchar text {text!r} ({units} code units, {enc.hex()}) as {form}, endian {case['endian']}, compiled={case['compiled']}"
    if form.startswith("standalone"):
        T = cs.wchar[None] if form == "standalone-null" else cs.wchar[units]
        data = enc + (b"\x00\x00" if form == "standalone-null" else b"")
        got = lib(T, data + b"\x41\x00")
        if isinstance(got, Err) or str(got) != text:
            raise Violation("codec:wchar-array", f"{what}: parsed {got!r}, expected {text!r}")
        back = lib(T.dumps, got)
        if isinstance(back, Err) or back != data:
            raise Violation("codec:wchar-array", f"{what}: dumps gave {back!r}, expected {data.hex()}")
    else:
        decl = {"fixed": f"wchar s[{units}];", "null": "wchar s[];", "expr": "wchar s[n * 2 - n];", "eof": "wchar s[EOF];"}[form]
        r = lib(cs.load, f"struct Root {{ uint8 n; {decl} {'' if form == 'eof' else 'uint8 tail;'} }};", compiled=case["compiled"])
        if isinstance(r, Err):
            raise Violation("codec:wchar-array", f"{what}: definition rejected: {r}", r.where)
        data = bytes([units]) + enc + (b"\x00\x00" if form == "null" else b"") + (b"" if form == "eof" else b"\xEE")
        s_ = io.BytesIO(data)
        obj = lib(cs.Root, s_)
        if isinstance(obj, Err) or str(obj.s) != text or s_.tell() != len(data) or (form != "eof" and obj.tail != 0xEE):
            raise Violation("codec:wchar-array", f"{what}: parsed {obj if isinstance(obj, Err) else (obj.s, s_.tell())!r}, expected {text!r} and {len(data)} bytes consumed")
        back = lib(obj.dumps)
        if isinstance(back, Err) or back != data:
            raise Violation("codec:wchar-array", f"{what}: dumps gave {back!r}, expected {data.hex()}")
        built = lib(lambda: cs.Root(n=units, s=text, **({} if form == "eof" else {"tail": 0xEE})).dumps())
        if isinstance(built, Err) or built != data:
            raise Violation("codec:wchar-array", f"{what}: a constructed instance dumps {built!r}, expected {data.hex()}")
    ctx.count("wstring:" + form + (":non-bmp" if any(ord(ch) > 0xFFFF for ch in text) else ":bmp"))
    if any(ord(ch) > 0xFFFF for ch in text):
        ctx.mark_nontrivial(case)
        if form == "null" and case["endian"] == ">" and not case["compiled"]:
            ctx.sample({"text": text, "bytes": enc.hex(), "form": form}, "wstring")


def run_case(case, ctx):
    if "wstring" in case:
        return _run_wstring(case, ctx)
    if "ops" in case:
        return _run_history(case, ctx)
    return _run_table(case, ctx)


def selfcheck():
    m = import_repo()
    missing = [n for n in m.cstruct().typedefs if n not in ALIASES]
    if missing:
        # new names in the library's table are reported, not judged
        print(f"C05 note: typedef names without an expectation row (skipped): {missing}")
    for v, signed in ((0, False), (127, False), (128, False), (-1, True), (-64, True), (-65, True), (63, True), (64, True), (624485, False)):
        enc = leb_ref_encode(v, signed)
        # decode with a textbook decoder
        res, shift = 0, 0
        for b in enc:
            res |= (b & 0x7F) << shift
            shift += 7
        if signed and enc[-1] & 0x40:
            res -= 1 << shift
        if res != v or (v == 624485 and enc != bytes([0xE5, 0x8E, 0x26])):
            raise HarnessError("reference LEB128 codec is wrong")


def stages(tier):
    q = tier == "quick"
    return [
        EnumStage("table", table_cases(tier), shards=8 if q else 16, scope="every name of the typedef table with an expectation row x endian in {<,>,!}; exhaustive values for 8-bit" + ("" if q else " and 16-bit") + " integers, all chars, BMP code units" + (" (every 37th)" if q else " (all)")),
        HypStage("history", history_case, examples=2000 if q else 30000, shards=6 if q else 16),
        EnumStage("wchar-strings", wstring_cases, shards=1, scope="10 texts (empty, BMP, surrogate pairs, BMP edges next to pairs) x byte order x 6 array forms (fixed / null-terminated / expression / to-end-of-stream fields, stand-alone null-terminated / fixed) x reader"),
    ]
