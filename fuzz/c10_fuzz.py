#!/venv/bin/python -B
"""atheris (libFuzzer) target for C10: bytes -> expression text; whenever the independent parser accepts the text as a
well-formed, in-domain expression, the library must evaluate it to the same value (twice, on the same object).
usage: c10_fuzz.py STATSFILE [libFuzzer args ...]   -- a mismatch is raised as an exception => libFuzzer crash artifact."""
import json
import os
import sys

VERIF = os.path.dirname(os.path.dirname(os.path.abspath(__file__)))
sys.path.insert(0, VERIF)
sys.path.append(os.path.join(VERIF, ".deps"))
REPO = os.environ.get("VERIF_REPO", "/repo")
sys.path.insert(0, REPO)

import atheris  # noqa: E402

with atheris.instrument_imports(include=["dissect.cstruct.expression"]):
    import dissect.cstruct as m  # noqa: E402

from pbt import exprref as X  # noqa: E402

assert os.path.realpath(m.__file__).startswith(os.path.realpath(REPO) + os.sep)
STATS = sys.argv[1]
ALPHABET = "0123456789abxXABuUlL()+-*/%&|^~<> \tnKsizeofuint8_"
CONSTS = {"A": 7, "B": 3, "n": 2, "K": 40}
CTX = {"n": 5, "x": 11}
stats = {"execs": 0, "well_formed": 0, "in_domain": 0}
cs = m.cstruct()
cs.consts.update(CONSTS)


def one(data):
    stats["execs"] += 1
    if stats["execs"] % 5000 == 0:
        with open(STATS, "w") as fh:
            json.dump(stats, fh)
    text = "".join(ALPHABET[b % len(ALPHABET)] for b in data[:48])
    try:
        ast = X.parse(text)
    except (X.NotWellFormed, RecursionError):
        return
    stats["well_formed"] += 1
    try:
        want = X.evaluate(ast, CTX, CONSTS)
    except (X.OutOfDomain, X.Unbound, KeyError, OverflowError, MemoryError):
        return
    stats["in_domain"] += 1
    e = m.Expression(cs, text)
    got = e.evaluate(dict(CTX))
    again = e.evaluate(dict(CTX))
    if got != want or again != want:
        raise AssertionError(f"C10 mismatch: {text!r} -> {got} / {again}, C value {want}")


atheris.Setup([sys.argv[0]] + sys.argv[2:], one)
atheris.Fuzz()
