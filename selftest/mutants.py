"""Sensitivity self-test (dev-time, not a registered check): apply one realistic mutation to a scratch copy of
/repo and expect the named property's quick check to exit 1.

usage: selftest/mutants.py [PROP ...] [--tests]     (--tests also runs the pinned test-suite on each mutant)
"""
import os
import shutil
import subprocess
import sys
import tempfile
import time

VERIF = os.path.dirname(os.path.dirname(os.path.abspath(__file__)))
REPO = "/repo"

# (property, id, file, old, new)
M = [
    ("C10", "prec-swap", "dissect/cstruct/expression.py", '"&": 2,', '"&": 4,'),
    ("C10", "right-assoc", "dissect/cstruct/expression.py", "return self.precedence_levels[o1] >= self.precedence_levels[o2]", "return self.precedence_levels[o1] > self.precedence_levels[o2]"),
    ("C10", "ctx-after-consts", "dissect/cstruct/expression.py", "            elif current_token in context:\n                queue.append(int(context[current_token]))\n            elif current_token in self.cstruct.consts:\n                queue.append(int(self.cstruct.consts[current_token]))", "            elif current_token in self.cstruct.consts:\n                queue.append(int(self.cstruct.consts[current_token]))\n            elif current_token in context:\n                queue.append(int(context[current_token]))"),
    ("C10", "octal-dropped", "dissect/cstruct/expression.py", 'token = token[:1] + "o" + token[1:]', "token = token[1:]"),
    ("C10", "stack-not-reset", "dissect/cstruct/expression.py", "        stack = []\n        queue = []\n        operators = set", "        stack = self.stack\n        queue = self.queue\n        operators = set"),
    ("C01", "int-write-unsigned", "dissect/cstruct/types/int.py", "return stream.write(data.to_bytes(cls.size, ENDIANNESS_MAP[cls.cs.endian], signed=cls.signed))", "return stream.write((data & ((1 << (cls.size * 8)) - 1)).to_bytes(cls.size, ENDIANNESS_MAP[cls.cs.endian]))"),
    ("C01", "leb-sign-test", "dissect/cstruct/types/leb128.py", "if ((cls.signed and (data == 0 and byte & 0x40 == 0))", "if ((cls.signed and (data == 0 and byte & 0x20 == 0))"),
    ("C07", "array-size-check-off", "dissect/cstruct/types/base.py", "if not cls.dynamic and cls.num_entries != (actual_size := len(data)):", "if not cls.dynamic and cls.num_entries < (actual_size := len(data)):"),
    ("C01", "packed-write-wrap", "dissect/cstruct/types/packed.py", "return stream.write(_struct(cls.cs.endian, cls.packchar).pack(data))", "return stream.write(_struct(cls.cs.endian, cls.packchar).pack(data) if not isinstance(data, int) or cls.packchar in 'efd' else (data & ((1 << (cls.size * 8)) - 1)).to_bytes(cls.size, 'little' if cls.cs.endian == '<' else 'big'))"),
    ("C02", "pad-after-field", "dissect/cstruct/types/structure.py", 'stream.write(b"\\x00" * (struct_start + field.offset - offset))\n                offset = struct_start + field.offset', 'stream.write(b"\\x00" * max(0, struct_start + field.offset - offset - 1))\n                offset = struct_start + field.offset'),
    ("C02", "null-term-dropped", "dissect/cstruct/types/base.py", "return cls._write_array(stream, [*array, cls.__default__()])", "return cls._write_array(stream, [*array])"),
    ("C02", "no-flush-at-end", "dissect/cstruct/types/structure.py", "        if bit_buffer._type is not None:\n            bit_buffer.flush()\n\n        if cls.__align__:\n            # Align the stream\n            stream.write", "        if cls.__align__:\n            # Align the stream\n            stream.write"),
    ("C02", "tail-align-field", "dissect/cstruct/types/structure.py", 'stream.write(b"\\x00" * (-stream.tell() & (cls.alignment - 1)))', 'stream.write(b"\\x00" * (-stream.tell() & (cls.__fields__[-1].alignment - 1)))'),
    ("C02", "chararray-nul-dropped", "dissect/cstruct/types/char.py", 'return stream.write(data + b"\\x00")', "return stream.write(data)"),
    ("C03", "fmt-count-dropped", "dissect/cstruct/compiler.py", "            current_count += count\n", "            current_count += count if char != 'H' else 0\n"),
    ("C03", "bits-reset-omitted", "dissect/cstruct/compiler.py", '                yield "bit_reader.reset()"\n', '                yield "pass"\n'),
    ("C03", "eof-check-weaker", "dissect/cstruct/compiler.py", "if len(buf) != {size}: raise EOFError()", "if len(buf) < {size} - 1: raise EOFError()"),
    ("C03", "sizes-elem", "dissect/cstruct/compiler.py", "reads.append(f's[\"{field._name}\"] = {field_type.size}')", "reads.append(f's[\"{field._name}\"] = {read_type.size}')"),
    ("C03", "block-seek-dropped", "dissect/cstruct/compiler.py", "                if not current_block and field.offset is not None and field.offset != current_offset:", "                if False:"),
    ("C04", "round-mask", "dissect/cstruct/types/structure.py", "                offset += -offset & (field.alignment - 1)\n\n            # The alignment of this struct", "                offset += -offset & (field.alignment - 1) if field.alignment != 8 else -offset & 3\n\n            # The alignment of this struct"),
    ("C04", "int24-align", "dissect/cstruct/cstruct.py", '"uint24": self._make_int_type("uint24", 3, False, alignment=4)', '"uint24": self._make_int_type("uint24", 3, False, alignment=2)'),
    ("C04", "union-tail-skipped", "dissect/cstruct/types/structure.py", "            size += -size & (alignment - 1)\n\n        return size, alignment", "            pass\n\n        return size, alignment"),
    ("C04", "sizeof-alignment", "dissect/cstruct/expression.py", 'queue.append(len(self.cstruct.resolve(" ".join(tmp_expression[i + 2 : end]))))', 'queue.append(self.cstruct.resolve(" ".join(tmp_expression[i + 2 : end])).alignment or 0)'),
    ("C04", "array-align-total", "dissect/cstruct/cstruct.py", "return cast(type[Array], self._make_type(name, bases, size, alignment=type_.alignment, attrs=attrs))", "return cast(type[Array], self._make_type(name, bases, size, alignment=(size if size in (2, 4, 8) else type_.alignment), attrs=attrs))"),
    ("C07", "max0-dropped", "dissect/cstruct/types/base.py", "num = max(0, cls.num_entries.evaluate(context))", "num = cls.num_entries.evaluate(context)"),
    ("C07", "terminator-not-consumed", "dissect/cstruct/types/packed.py", "            if (value := fmt.unpack(data)[0]) == 0:\n                break", "            if (value := fmt.unpack(data)[0]) == 0:\n                stream.seek(-cls.size, 1)\n                break"),
    ("C07", "dims-swapped", "dissect/cstruct/parser.py", "for count in reversed(counts):", "for count in counts:"),
    ("C07", "wchar0-terminator", "dissect/cstruct/types/wchar.py", 'if point == b"\\x00\\x00":', 'if point[:1] == b"\\x00":'),
    ("C07", "int-read0-keeps-zero", "dissect/cstruct/types/int.py", "            if (value := cls._read(stream, context)) == 0:\n                break\n", "            if (value := cls._read(stream, context)) == 0:\n                result.append(value)\n                break\n"),
    ("C07", "enum-write0-no-term", "dissect/cstruct/types/enum.py", "return cls._write_array(stream, [*data, cls.type.__default__()])", "return cls._write_array(stream, [*data])"),
    ("C08", "int-no-length-check", "dissect/cstruct/types/int.py", "        if len(data) != cls.size:\n            raise EOFError", "        if False:\n            raise EOFError"),
    ("C08", "packed-zero-fill", "dissect/cstruct/types/packed.py", "        fmt = _struct(cls.cs.endian, f\"{count}{cls.packchar}\")\n\n        if len(data) != length:\n            raise EOFError(f\"Read {len(data)} bytes, but expected {length}\")", "        fmt = _struct(cls.cs.endian, f\"{count}{cls.packchar}\")\n\n        if len(data) != length:\n            data = data.ljust(length, b\"\\0\")"),
    ("C08", "leb-empty-is-zero", "dissect/cstruct/types/leb128.py", '            if b == b"":\n                raise EOFError("EOF reached, while final LEB128 byte was not yet read")', '            if b == b"":\n                b = b"\\x00"'),
    ("C08", "char-no-length-check", "dissect/cstruct/types/char.py", "        if count != EOF and len(data) != count:\n            raise EOFError", "        if False:\n            raise EOFError"),
    ("C08", "wchar-wrong-exception", "dissect/cstruct/types/wchar.py", "        if count != EOF and len(data) != count:\n            raise EOFError(", "        if count != EOF and len(data) != count:\n            raise ValueError("),
    ("C08", "compiled-eof-weaker", "dissect/cstruct/compiler.py", "if len(buf) != {size}: raise EOFError()", "if len(buf) < {size} - 1: raise EOFError()"),
    ("C08", "char0-eof-returns", "dissect/cstruct/types/char.py", '            if byte == b"":\n                raise EOFError("Read 0 bytes, but expected 1")', '            if byte == b"":\n                break'),
    ("C09", "struct-start-dropped", "dissect/cstruct/types/structure.py", "                offset = struct_start + field.offset\n                stream.seek(offset)", "                offset = field.offset\n                stream.seek(offset)"),
    ("C09", "compiled-seek-absolute", "dissect/cstruct/compiler.py", 'yield f"stream.seek(o + {field.offset})"\n                current_offset = field.offset\n\n            if self.align', 'yield f"stream.seek({field.offset})"\n                current_offset = field.offset\n\n            if self.align'),
    ("C09", "bytearray-to-ctor", "dissect/cstruct/types/base.py", "    return isinstance(value, (bytes, memoryview, bytearray))", "    return isinstance(value, (bytes, memoryview))"),
    ("C09", "union-reads-from-zero", "dissect/cstruct/types/structure.py", "            result = {}\n            sizes = {}\n            buf = stream.read(cls.size)", "            result = {}\n            sizes = {}\n            stream.seek(0)\n            buf = stream.read(cls.size)"),
    ("C09", "compiled-origin-zero", "dissect/cstruct/compiler.py", "        o = stream.tell()\n        \"\"\"", "        o = 0\n        \"\"\""),
    ("C07", "is-eof-no-restore", "dissect/cstruct/types/base.py", "    stream.seek(pos)\n    return False", "    return False"),
    ("C09", "reads-skips-first-byte", "dissect/cstruct/cstruct.py", "        return self.resolve(name).read(stream)", "        return self.resolve(name).read(stream[0:] if isinstance(stream, (bytes, bytearray)) else stream) if not isinstance(stream, memoryview) else self.resolve(name).read(bytes(stream)[:-1])"),
    ("C05", "network-is-little", "dissect/cstruct/utils.py", '    "!": "big",', '    "!": "little",'),
    ("C05", "compiled-binds-endian", "dissect/cstruct/compiler.py", "unpack = f'data = _struct(cls.cs.endian, \"{fmt}\").unpack(buf)\\n'", "unpack = f'data = _struct(\"{self.cs.endian}\", \"{fmt}\").unpack(buf)\\n'"),
    ("C05", "leb-read-sign-bit", "dissect/cstruct/types/leb128.py", "        if cls.signed and b & 0x40 != 0:", "        if cls.signed and b & 0x20 != 0:"),
    ("C05", "uint48-signed", "dissect/cstruct/cstruct.py", '"uint48": self._make_int_type("uint48", 6, False, alignment=8)', '"uint48": self._make_int_type("uint48", 6, True, alignment=8)'),
    ("C05", "wchar-map-network", "dissect/cstruct/types/wchar.py", '        "!": "utf-16-be",', '        "!": "utf-16-le",'),
    ("C05", "alias-u4-wrong", "dissect/cstruct/cstruct.py", '"u4": "uint32",', '"u4": "uint16",'),
    ("C05", "bitbuffer-freezes-endian", "dissect/cstruct/compiler.py", 'preamble += "bit_reader = BitBuffer(stream, cls.cs.endian)\\n"', 'preamble += f"bit_reader = BitBuffer(stream, \\"{self.cs.endian}\\")\\n"'),
    ("C05", "struct-cache-ignores-endian", "dissect/cstruct/types/packed.py", "        return stream.write(_struct(cls.cs.endian, cls.packchar).pack(data))", "        return stream.write(_struct(cls.__dict__.get('_e') or (setattr(cls, '_e', cls.cs.endian) or cls.cs.endian), cls.packchar).pack(data))"),
    ("C12", "missing-masks-value", "dissect/cstruct/types/enum.py", "        new_member._name_ = None\n        new_member._value_ = value\n        return new_member", "        new_member._name_ = None\n        new_member._value_ = value & 0xFFFFFFFF\n        return new_member"),
    ("C12", "enum-next-not-incremented", "dissect/cstruct/parser.py", "                else:\n                    nextval = val + 1\n\n                values[key] = val\n\n        if not d[\"type\"]:\n            d[\"type\"] = \"uint32\"\n\n        factory = self.cstruct._make_flag if", "                else:\n                    nextval = val + 2 if val == 5 else val + 1\n\n                values[key] = val\n\n        if not d[\"type\"]:\n            d[\"type\"] = \"uint32\"\n\n        factory = self.cstruct._make_flag if"),
    ("C12", "flag-next-highbit", "dissect/cstruct/parser.py", "                if enumtype == \"flag\":\n                    high_bit = val.bit_length() - 1\n                    nextval = 2 ** (high_bit + 1)\n                else:\n                    nextval = val + 1\n\n                values[key] = val\n\n        if not d[\"type\"]:\n            d[\"type\"] = \"uint32\"\n\n        factory = self.cstruct._make_flag if", "                if enumtype == \"flag\":\n                    high_bit = val.bit_length() - 1\n                    nextval = 2 ** (high_bit + 1) if val & (val - 1) == 0 else 2 ** high_bit\n                else:\n                    nextval = val + 1\n\n                values[key] = val\n\n        if not d[\"type\"]:\n            d[\"type\"] = \"uint32\"\n\n        factory = self.cstruct._make_flag if"),
    ("C12", "eq-drops-class-check", "dissect/cstruct/types/enum.py", "        if isinstance(other.__class__, EnumMetaType) and other.__class__ is not self.__class__:", "        if False:"),
    ("C12", "hash-includes-id", "dissect/cstruct/types/enum.py", "        return hash((self.__class__, self.name, self.value))", "        return hash((self.__class__, self.name, self.value, id(self) if self.name is None else 0))"),
    ("C12", "legacy-numbering", "dissect/cstruct/parser.py", "                    else:\n                        nextval = val + 1\n\n                    values[key] = val", "                    else:\n                        nextval = val + 1 if val else 2\n\n                    values[key] = val"),
    ("C12", "enum-write-array-name", "dissect/cstruct/types/enum.py", "        data = [entry.value if isinstance(entry, _Enum) else entry for entry in array]\n        return cls.type._write_array(stream, data)", "        data = [(entry.value & 0x7FFF) if isinstance(entry, _Enum) else entry for entry in array]\n        return cls.type._write_array(stream, data)"),
    ("C12", "flag-eq-int-only", "dissect/cstruct/types/flag.py", "        if isinstance(other.__class__, EnumMetaType) and other.__class__ is not self.__class__:", "        if False:"),
    ("C19", "gap-after-7", "dissect/cstruct/utils.py", "            if j == 7:\n                values += \" \"", "            if j == 8:\n                values += \" \""),
    ("C19", "printable-upper-dotted", "dissect/cstruct/utils.py", 'print_char = char if char in PRINTABLE else "."', 'print_char = char if char in PRINTABLE and char != "~" else "."'),
    ("C19", "pack-wrong-order-for-bang", "dissect/cstruct/utils.py", "    return value.to_bytes(size, ENDIANNESS_MAP.get(endian, endian), signed=value < 0)", "    return value.to_bytes(size, ENDIANNESS_MAP.get(endian, endian) if endian != '!' or size < 3 else 'little', signed=value < 0)"),
    ("C19", "swap-same-order", "dissect/cstruct/utils.py", '    return unpack(pack(value, size, ">"), size, "<")', '    return unpack(pack(value, size, ">"), size, "<") if size != 24 else unpack(pack(value, size, ">"), size, ">")'),
    ("C19", "offset-not-running", "dissect/cstruct/utils.py", 'yield f"{prefix}{offset + i:08x}  {values:48s}  {chars}"', 'yield f"{prefix}{offset + (i if i < 48 else 48):08x}  {values:48s}  {chars}"'),
    ("C19", "colour-eats-byte", "dissect/cstruct/utils.py", "                if active:\n                    values += f\"{ord(char):02x}\"", "                if active:\n                    values += f\"{ord(char) & 0x7f:02x}\""),
    ("C19", "dumpstruct-skips-last", "dissect/cstruct/utils.py", "    for field in structure.__class__.__fields__:\n        if getattr", "    for field in structure.__class__.__fields__[: max(1, len(structure.__class__.__fields__) - (len(structure.__class__.__fields__) > 4))]:\n        if getattr"),
    ("C19", "u16-ignores-endian", "dissect/cstruct/utils.py", "    return unpack(value, 16, endian, sign)", '    return unpack(value, 16, "little" if endian == "network" else endian, sign)'),
    ("C17", "eq-drops-last", "dissect/cstruct/types/structure.py", '    self_vals = ",".join(f"self.{name}" for name in fields)\n    other_vals = ",".join(f"other.{name}" for name in fields)\n\n    if self_vals:', '    self_vals = ",".join(f"self.{name}" for name in fields[: max(1, len(fields) - (len(fields) > 5))])\n    other_vals = ",".join(f"other.{name}" for name in fields[: max(1, len(fields) - (len(fields) > 5))])\n\n    if self_vals:'),
    ("C17", "bool-all", "dissect/cstruct/types/structure.py", "        return any([{vals}])", "        return all([{vals}]) if len([{vals}]) == 4 else any([{vals}])"),
    ("C17", "hash-drops-first", "dissect/cstruct/types/structure.py", '    vals = ", ".join(f"self.{name}" for name in fields)\n\n    code = f\"\"\"\n    def __hash__(self):', '    vals = ", ".join(f"self.{name}" for name in fields) + (", id(self)" if len(fields) == 2 else "")\n\n    code = f\"\"\"\n    def __hash__(self):'),
    ("C17", "init-default-index", "dissect/cstruct/types/structure.py", "            co_consts=(None, *[field.type.__default__() for field in fields]),", "            co_consts=(None, *([field.type.__default__() for field in fields][::-1] if len(fields) == 3 else [field.type.__default__() for field in fields])),"),
    ("C17", "eq-ignores-class", "dissect/cstruct/types/structure.py", "        if self.__class__ is other.__class__:\n            return ({self_vals}) == ({other_vals})", "        if self.__class__ is other.__class__ or len(self.__class__.__fields__) == 7:\n            return ({self_vals}) == ({other_vals})"),
    ("C17", "anon-setter-wrong-field", "dissect/cstruct/types/structure.py", "        setattr(obj, attr, value)\n\n    return _func", "        setattr(obj, attr, value if not isinstance(value, int) or isinstance(value, bool) else int(value) & ~1)\n\n    return _func"),
    ("C17", "write-skips-offset-pad", "dissect/cstruct/types/structure.py", "            value = getattr(data, field._name, None)\n            if value is None:\n                value = field_type.__default__()\n\n            if field.bits:", "            value = getattr(data, field._name, None)\n            if value is None or (field.bits == 7 and value == 1):\n                value = field_type.__default__()\n\n            if field.bits:"),
    ("C18", "commit-skips-size", "dissect/cstruct/types/structure.py", "        for key, value in classdict.items():\n            setattr(cls, key, value)", "        for key, value in classdict.items():\n            if key == \"size\" and cls.size is not None and value is not None and len(cls.__fields__) > 2:\n                continue\n            setattr(cls, key, value)"),
    ("C18", "keeps-old-compiled-read", "dissect/cstruct/types/structure.py", "                classdict[\"_read\"] = compiler.Compiler(cls.cs).compile_read(fields, cls.__name__, align=cls.__align__)", "                classdict[\"_read\"] = compiler.Compiler(cls.cs).compile_read(fields if len(fields) != 3 else fields[:2], cls.__name__, align=cls.__align__)"),
    ("C18", "lookup-not-rebuilt", "dissect/cstruct/types/structure.py", "        classdict[\"lookup\"] = raw_lookup\n", "        classdict[\"lookup\"] = raw_lookup if not (getattr(cls, \"lookup\", None) and len(raw_lookup) == 3) else cls.lookup\n"),
    ("C18", "start-update-forgets-commit", "dissect/cstruct/types/structure.py", "        finally:\n            cls.commit()\n            cls.__updating__ = False", "        finally:\n            if len(cls.__fields__) != 2:\n                cls.commit()\n            cls.__updating__ = False"),
    ("C18", "init-not-regenerated", "dissect/cstruct/types/structure.py", "            classdict[\"__init__\"] = _generate_structure__init__(raw_lookup.values())\n            classdict[\"__eq__\"]", "            if not (isinstance(cls, StructureMetaType) and len(raw_lookup) == 4 and \"__init__\" in vars(cls)):\n                classdict[\"__init__\"] = _generate_structure__init__(raw_lookup.values())\n            classdict[\"__eq__\"]"),
    ("C18", "compiled-lost-on-extend", "dissect/cstruct/types/structure.py", "                classdict[\"__compiled__\"] = True\n            except Exception:", "                classdict[\"__compiled__\"] = len(fields) != 3\n            except Exception:"),
    ("C18", "parser-commit-dropped-align", "dissect/cstruct/types/structure.py", "        classdict = cls._update_fields(cls.__fields__, cls.__align__)", "        classdict = cls._update_fields(cls.__fields__, cls.__align__ and len(cls.__fields__) != 3)"),
    ("C14", "shared-defaults-again", "dissect/cstruct/types/structure.py", "            obj = type.__call__(cls, **cls._mutable_defaults())", "            obj = type.__call__(cls)"),
    ("C14", "array-default-shares-elements", "dissect/cstruct/types/base.py", "[cls.type.__default__() for _ in range(cls.num_entries if isinstance(cls.num_entries, int) else 0)]", "[cls.type.__default__()] * (cls.num_entries if isinstance(cls.num_entries, int) else 0)"),
    ("C14", "int-remembers-first-cstruct", "dissect/cstruct/types/int.py", "        return cls.from_bytes(data, ENDIANNESS_MAP[cls.cs.endian], signed=cls.signed)", "        _FIRST.append(cls.cs)\n        return cls.from_bytes(data, ENDIANNESS_MAP[_FIRST[0].endian], signed=cls.signed)\n\n    _unused = None\n\n\n_FIRST = []\n\n\nclass _Pad:\n    pass"),
    ("C14", "struct-cache-without-endian", "dissect/cstruct/types/packed.py", "@lru_cache(1024)\ndef _struct(endian: str, packchar: str) -> Struct:\n    return Struct(f\"{endian}{packchar}\")", "_CACHE = {}\n\n\ndef _struct(endian: str, packchar: str) -> Struct:\n    if packchar not in _CACHE:\n        _CACHE[packchar] = Struct(f\"{endian}{packchar}\")\n    return _CACHE[packchar]"),
    ("C14", "consts-class-attribute", "dissect/cstruct/cstruct.py", "        self.consts = {}\n        self.lookups = {}", "        self.consts = cstruct._shared if hasattr(cstruct, '_shared') else setattr(cstruct, '_shared', {}) or cstruct._shared\n        self.lookups = {}"),
    ("C14", "typedefs-shared", "dissect/cstruct/cstruct.py", "        pointer = pointer or (\"uint64\" if sys.maxsize > 2**32 else \"uint32\")", "        if hasattr(cstruct, '_td'):\n            self.typedefs = cstruct._td\n        else:\n            cstruct._td = self.typedefs\n        pointer = pointer or (\"uint64\" if sys.maxsize > 2**32 else \"uint32\")"),
    ("C14", "kw-construct-shares", "dissect/cstruct/types/structure.py", "            kwargs = {**cls._mutable_defaults(len(args), kwargs), **kwargs}", "            pass"),
    ("C11", "rebuild-ignores-nothing-but-skips-update", "dissect/cstruct/types/structure.py", "        object.__setattr__(self, \"_buf\", buf.getvalue())\n        self._update()", "        object.__setattr__(self, \"_buf\", buf.getvalue())\n        if len(self.__class__.__fields__) != 3:\n            self._update()"),
    ("C11", "proxy-writes-target-only", "dissect/cstruct/types/structure.py", "        setattr(self.__target__, attr, value)\n        self.__union__._rebuild(self.__attr__)", "        setattr(self.__target__, attr, value)\n        if attr != \"f1\":\n            self.__union__._rebuild(self.__attr__)"),
    ("C11", "union-size-rounded-down", "dissect/cstruct/types/structure.py", "            size += -size & (alignment - 1)\n\n        return size, alignment", "            size -= size % alignment if size % alignment and size > alignment else 0\n\n        return size, alignment"),
    ("C11", "rebuild-from-zero-buffer", "dissect/cstruct/types/structure.py", "        if (cur_buf := getattr(self, \"_buf\", None)) is None:", "        if (cur_buf := getattr(self, \"_buf\", None)) is None or attr == \"f2\":"),
    ("C11", "nested-proxy-innermost-attr", "dissect/cstruct/types/structure.py", "                    attr = member or field._name", "                    attr = field._name"),
    ("C11", "setattr-rebuild-skipped-for-arrays", "dissect/cstruct/types/structure.py", "        if attr in self.__class__.lookup:\n            # Fields of an anonymous", "        if attr in self.__class__.lookup and not isinstance(value, list):\n            # Fields of an anonymous"),
    ("C11", "union-read-short-extent", "dissect/cstruct/types/structure.py", "            buf = stream.read(cls.size)\n            if len(buf) != cls.size:", "            buf = stream.read(cls.size if cls.size != 6 else 5) + (b\"\\x00\" if cls.size == 6 else b\"\")\n            if len(buf) != cls.size:"),
    ("C15", "expr-stacks-on-object", "dissect/cstruct/expression.py", "        stack = []\n        queue = []\n        operators = set", "        stack = self.stack = []\n        queue = self.queue = []\n        stack = self.stack\n        operators = set(self.binary_operators.keys()) | set(self.unary_operators.keys())\n        context = context or {}\n        for _i in range(len(self.tokens)):\n            pass\n        stack, queue = self.stack, self.queue\n        operators = set"),
    ("C15", "shared-bitbuffer", "dissect/cstruct/types/structure.py", "        bit_buffer = BitBuffer(stream, cls.cs.endian)\n        struct_start = stream.tell()\n\n        result = {}", "        bit_buffer = globals().setdefault(\"_BB\", {}).setdefault(cls, BitBuffer(stream, cls.cs.endian))\n        bit_buffer.stream = stream\n        bit_buffer.reset()\n        struct_start = stream.tell()\n\n        result = {}"),
    ("C15", "shared-result-dict", "dissect/cstruct/types/structure.py", "        struct_start = stream.tell()\n\n        result = {}\n        sizes = {}", "        struct_start = stream.tell()\n\n        result = globals().setdefault(\"_RR\", {}).setdefault(cls, {})\n        result.clear()\n        sizes = {}"),
    ("C15", "shared-scratch-list", "dissect/cstruct/types/packed.py", "        result = []\n\n        fmt = _struct(cls.cs.endian, cls.packchar)\n        while True:", "        result = globals().setdefault(\"_SCR\", [])\n        del result[:]\n\n        fmt = _struct(cls.cs.endian, cls.packchar)\n        while True:"),
    ("C15", "compiled-shared-r", "dissect/cstruct/compiler.py", "        r = {}\n        s = {}\n        o = stream.tell()", "        r = cls.__dict__.get(\"_r\") or {}\n        type.__setattr__(cls, \"_r\", r)\n        r.clear()\n        s = {}\n        o = stream.tell()"),
    ("C16", "deref-no-seek-back", "dissect/cstruct/types/pointer.py", "            finally:\n                # Also restore the position if the target can't be read\n                self._stream.seek(position)", "            finally:\n                pass"),
    ("C16", "pointer-size-fixed-64", "dissect/cstruct/cstruct.py", "            self.pointer.size,\n            alignment=self.pointer.alignment,", "            8,\n            alignment=self.pointer.alignment,"),
    ("C16", "compiled-pointer-no-stream", "dissect/cstruct/compiler.py", 'parser = f"_pt.__new__(_pt, {getter}, stream, r)"', 'parser = f"_pt.__new__(_pt, {getter}, None, r)"'),
    ("C16", "add-returns-int", "dissect/cstruct/types/pointer.py", "        return type.__call__(self.__class__, int.__add__(self, other), self._stream, self._context)", "        return int.__add__(self, other)"),
    ("C16", "null-test-identity", "dissect/cstruct/types/pointer.py", "        if self == 0 or self._stream is None:", "        if self._stream is None:"),
    ("C16", "deref-cache-shared", "dissect/cstruct/types/pointer.py", "            self._value = value\n\n        return self._value", "            self._value = value\n            type.__setattr__(self.__class__, \"_c\", value)\n\n        return getattr(self.__class__, \"_c\", self._value)"),
    ("C16", "pointer-array-elements-int", "dissect/cstruct/compiler.py", 'item_parser = "_et.__new__(_et, e, stream, r)"', 'item_parser = "_et.__new__(_et, e, None, r)"'),
    ("C16", "sub-loses-stream", "dissect/cstruct/types/pointer.py", "        return type.__call__(self.__class__, int.__sub__(self, other), self._stream, self._context)", "        return type.__call__(self.__class__, int.__sub__(self, other), None, self._context)"),
    ("C16", "char-pointer-reads-one", "dissect/cstruct/types/pointer.py", "                    value = self.type._read_0(self._stream, self._context)", "                    value = self.type._read(self._stream, self._context)"),
    ("C13", "comment-eats-following-token", "dissect/cstruct/parser.py", 'pattern = r"(\\".*?\\"|\\\'.*?\\\')|(/\\*.*?\\*/|//[^\\r\\n]*)"', 'pattern = r"(\\".*?\\"|\\\'.*?\\\')|(/\\*.*?\\*/[ ]?[a-z]?|//[^\\r\\n]*)"'),
    ("C13", "crlf-comment-regression", "dissect/cstruct/parser.py", '(/\\*.*?\\*/|//[^\\r\\n]*)"', '(/\\*.*?\\*/|//[^\\r\\n]*$)"'),
    ("C13", "typedef-lookahead-dropped", "dissect/cstruct/parser.py", 'TOK.add(r"typedef(?=\\s)", "TYPEDEF")', 'TOK.add(r"typedef", "TYPEDEF")'),
    ("C13", "add-type-compares-names", "dissect/cstruct/cstruct.py", "            name in self.typedefs and not _same_type(self.resolve(self.typedefs[name]), self.resolve(type_))", "            name in self.typedefs and self.typedefs[name] != type_ and isinstance(type_, str)"),
    ("C13", "resolve-unbounded", "dissect/cstruct/cstruct.py", "        for _ in range(10):\n            if type_name not in self.typedefs:", "        while True:\n            if type_name not in self.typedefs:"),
    ("C13", "enum-continuation-regression", "dissect/cstruct/parser.py", '            if lines and (stripped[0] in "=+-*/%&|^<>()" or', '            if lines and (stripped[0] in "+-*/%&|^<>()" or'),
    ("C13", "struct-registered-late", "dissect/cstruct/parser.py", "        tokens.reset_flags()\n        return st", "        if register and len(names) > 1:\n            self.cstruct.typedefs.pop(names[-1], None)\n        tokens.reset_flags()\n        return st"),
    ("C13", "unknown-binds-to-uint8", "dissect/cstruct/cstruct.py", "            if type_name not in self.typedefs:\n                raise ResolveError(f\"Unknown type {name}\")", "            if type_name not in self.typedefs:\n                if type_name.lower() in self.typedefs and type_name != type_name.lower():\n                    type_name = type_name.lower()\n                    continue\n                raise ResolveError(f\"Unknown type {name}\")"),
    ("C20", "fields-from-lookup", "dissect/cstruct/tools/stubgen.py", "    for field_name, field in structure.fields.items():", "    for field_name, field in structure.lookup.items():"),
    ("C20", "alias-wrong-name", "dissect/cstruct/tools/stubgen.py", '            stub = f"{name}: TypeAlias = {typedef.__name__}"\n        elif issubclass(typedef, (types.Enum', '            stub = f"{typedef.__name__}: TypeAlias = {typedef.__name__}"\n        elif issubclass(typedef, (types.Enum'),
    ("C20", "enum-members-drop-aliases", "dissect/cstruct/tools/stubgen.py", '    result.extend(f"    {key} = ..." for key in enum.__members__)', '    result.extend(f"    {key} = ..." for key in list(enum.__members__)[: max(1, len(enum.__members__) - (len(enum.__members__) > 2))])'),
    ("C20", "typehint-ignores-nesting", "dissect/cstruct/tools/stubgen.py", '        return f"{module_prefix}Array[{generate_typehint(type_.type, prefix, module_prefix)}]"', '        t_ = type_.type\n        while issubclass(t_, types.Array):\n            t_ = t_.type\n        return f"{module_prefix}Array[{generate_typehint(t_, prefix, module_prefix)}]"'),
    ("C20", "constants-skip-last", "dissect/cstruct/tools/stubgen.py", "    for name, value in cs.consts.items():\n        if name in empty_cs.consts:\n            continue", "    for name, value in list(cs.consts.items())[: max(1, len(cs.consts) - (len(cs.consts) > 3))]:\n        if name in empty_cs.consts:\n            continue"),
    ("C20", "anon-enum-literal-regression", "dissect/cstruct/tools/stubgen.py", "        if isinstance(value, (types.Enum, types.Flag)):", "        if False:"),
    ("C20", "pointer-hint-target-lost", "dissect/cstruct/tools/stubgen.py", '        return f"{module_prefix}Pointer[{generate_typehint(type_.type, prefix, module_prefix)}]"', '        return f"{module_prefix}Pointer[{prefix}uint8]"'),
    ("C20", "builtin-alias-unprefixed-wrong", "dissect/cstruct/tools/stubgen.py", '            stub = f"{name}: TypeAlias = {cs_prefix}{typedef.__name__}"', '            stub = f"{name}: TypeAlias = {cs_prefix}{typedef.__name__ if typedef.size != 3 else \"uint32\"}"'),
    ("C06", "be-mask-off", "dissect/cstruct/bitbuffer.py", "v >>= self._remaining - bits", "v >>= max(0, self._remaining - bits - (1 if bits == 7 else 0))"),
    ("C06", "writer-shift", "dissect/cstruct/bitbuffer.py", "self._buffer |= data << (self._type.size * 8 - self._remaining)", "self._buffer |= data << (self._type.size * 8 - self._remaining) if bits != 5 else data << bits"),
    ("C06", "straddle-lt", "dissect/cstruct/types/structure.py", "                if bits_remaining < 0:\n                    raise ValueError", "                if bits_remaining < -1:\n                    raise ValueError"),
    ("C06", "no-new-unit-on-type-change", "dissect/cstruct/bitbuffer.py", "        if self._remaining == 0 or self._type != field_type:\n            if field_type.size is None:\n                raise ValueError(\"Reading", "        if self._remaining == 0 or (self._type != field_type and self._type is None):\n            if field_type.size is None:\n                raise ValueError(\"Reading"),
    # --- added from the audit round (changes that reviewers showed to pass the tests AND the checks as they stood then)
    ("C11", "proxy-chain-flattened", "dissect/cstruct/types/structure.py", "                    proxy = UnionProxy(self, attr, nested_value)\n                    object.__setattr__(value, field._name, proxy)\n                    while isinstance(nested_value, UnionProxy):\n                        nested_value = nested_value.__target__\n", "                    while isinstance(nested_value, UnionProxy):\n                        nested_value = nested_value.__target__\n                    proxy = UnionProxy(self, attr, nested_value)\n                    object.__setattr__(value, field._name, proxy)\n"),
    ("C16", "and-loses-stream", "dissect/cstruct/types/pointer.py", "return type.__call__(self.__class__, int.__and__(self, other), self._stream, self._context)", "return type.__call__(self.__class__, int.__and__(self, other), None, self._context)"),
    ("C16", "pointer-read-signed", "dissect/cstruct/types/pointer.py", "return cls.__new__(cls, cls.cs.pointer._read(stream, context), stream, context)", "v = cls.cs.pointer._read(stream, context); return cls.__new__(cls, v - (1 << (8 * cls.size)) if v >> (8 * cls.size - 1) else v, stream, context)"),
    ("C03", "block-seek-only-when-aligned", "dissect/cstruct/compiler.py", "                if not current_block and field.offset is not None and field.offset != current_offset:", "                if self.align and not current_block and field.offset is not None and field.offset != current_offset:"),
    ("C17", "lookup-declared-members-only", "dissect/cstruct/types/structure.py", "lookup.update(field.type.fields)", "lookup.update({f.name: f for f in field.type.__fields__ if f.name is not None})"),
    ("C20", "uint128-named-int128", "dissect/cstruct/cstruct.py", '"uint128": self._make_int_type("uint128", 16, False, alignment=16)', '"uint128": self._make_int_type("int128", 16, False, alignment=16)'),
    ("C04", "alias-ull-32bit", "dissect/cstruct/cstruct.py", '"unsigned long long": "uint64"', '"unsigned long long": "uint32"'),
    ("C03", "bitbuffer-endian-baked", "dissect/cstruct/compiler.py", 'preamble += "bit_reader = BitBuffer(stream, cls.cs.endian)\\n"', 'preamble += f\'bit_reader = BitBuffer(stream, "{self.cs.endian}")\\n\''),
    ("C18", "stale-read-plan", "dissect/cstruct/types/structure.py", "        result = {}\n        sizes = {}\n        for field in cls.__fields__:\n            offset = stream.tell()\n", "        result = {}\n        sizes = {}\n        plan = cls.__dict__.get(\"_plan\")\n        if plan is None:\n            plan = list(cls.__fields__)\n            type.__setattr__(cls, \"_plan\", plan)\n        for field in plan:\n            offset = stream.tell()\n"),
]


def run(cmd, **kw):
    return subprocess.run(cmd, stdout=subprocess.PIPE, stderr=subprocess.STDOUT, text=True, **kw)


def main():
    args = [a for a in sys.argv[1:] if not a.startswith("--")]
    with_tests = "--tests" in sys.argv
    results = []
    for prop, mid, path, old, new in M:
        if args and prop not in args and mid not in args:
            continue
        d = tempfile.mkdtemp(prefix="vp-mut-", dir="/tmp")
        try:
            dst = os.path.join(d, "repo")
            shutil.copytree(REPO, dst, ignore=shutil.ignore_patterns(".git", "__pycache__", "*.egg-info"))
            fp = os.path.join(dst, path)
            src = open(fp).read()
            if src.count(old) != 1:
                results.append((prop, mid, "MUTATION-DOES-NOT-APPLY", 0))
                print(f"{prop} {mid:28s} MUTATION-DOES-NOT-APPLY ({src.count(old)} matches)", flush=True)
                continue
            open(fp, "w").write(src.replace(old, new))
            tests = ""
            if with_tests:
                r = run(["/venv/bin/python", "-m", "pytest", "-q", "-x", "-p", "no:cacheprovider", "tests"], cwd=dst, env=dict(os.environ, PYTHONPATH=dst, PYTHONDONTWRITEBYTECODE="1"))
                tests = "tests-pass" if r.returncode == 0 else "tests-FAIL"
            t0 = time.time()
            r = run([os.path.join(VERIF, "check"), prop, "--tier", "quick"], env=dict(os.environ, VERIF_REPO=dst, VERIF_EVIDENCE_DIR=os.path.join(d, "ev"), VERIF_NO_SHRINK="1"))
            dt = time.time() - t0
            kind = ""
            for line in r.stdout.splitlines():
                if line.startswith("  ") and ":" in line and not kind:
                    kind = line.strip()[:90]
            status = {0: "SURVIVED", 1: "killed", 2: "HARNESS-ERROR"}.get(r.returncode, f"rc={r.returncode}")
            results.append((prop, mid, f"{status} {tests} {kind}", dt))
            print(f"{prop} {mid:28s} {status:10s} {tests:10s} {dt:5.1f}s  {kind}", flush=True)
            if r.returncode == 2:
                print(r.stdout[-1500:])
        finally:
            shutil.rmtree(d, ignore_errors=True)
    killed = sum(1 for r in results if r[2].startswith("killed"))
    print(f"\n{killed}/{len(results)} mutants killed")


if __name__ == "__main__":
    main()
