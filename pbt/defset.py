"""Generator of definition *sets* as text items with dependencies (C13, C20). No reference semantics needed:
the properties built on it are metamorphic (edited text vs base text) or structural (stub vs loaded types)."""
from __future__ import annotations

import re

from hypothesis import strategies as st

SCALARS = ["uint8", "int8", "uint16", "int16", "uint32", "int32", "uint64", "int64", "char", "wchar", "uint24", "int128", "float", "double", "BYTE", "WORD", "DWORD", "unsigned int", "unsigned long long", "signed short", "int48", "uint48", "int24"]
INTS = ["uint8", "int8", "uint16", "int16", "uint32", "int32", "uint64"]


class Item:
    def __init__(self, kind, name, text, deps=(), names=()):
        self.kind = kind
        self.name = name
        self.text = text
        self.deps = set(deps)
        self.names = list(names) or [name]

    def to_json(self):
        return {"kind": self.kind, "name": self.name, "text": self.text, "deps": sorted(self.deps), "names": self.names}


def _field_names(draw, n, keywords=False):
    pool = ["a", "b", "c", "len", "flags", "data", "next", "size", "type", "hdr", "x", "y", "z", "id", "count", "name", "value", "u", "_", "f0", "f1", "f2", "f3",
            "structure", "unions", "typedefs", "enumx", "flagged", "struct_t", "typedef_t"]
    if keywords:
        pool += ["class", "from", "in", "is", "global", "def"]
    out = []
    for _ in range(n):
        cands = [p for p in pool if p not in out or p == "_"]
        out.append(draw(st.sampled_from(cands)))
    return out


@st.composite
def struct_body(draw, env, depth, kind="struct", keywords=False, prefix=""):
    """-> (text of '{ ... }' body lines, deps). env: dict(defines, enums, structs, aliases)."""
    n = draw(st.integers(1, 5))
    # the discard name "_" may repeat, but only for plain scalar fields of a struct (never inside anonymous members or
    # unions, where the repeated attribute name is ambiguous for forwarding properties and proxies - observed, not claimed)
    names = [("_" if (x == "_" and not prefix and kind == "struct") else prefix + ("pad" if x == "_" else x)) for x in _field_names(draw, n, keywords and not prefix)]
    seen_names = set()
    names = [x for x in names if x == "_" or not (x in seen_names or seen_names.add(x))]
    lines = []
    deps = set()
    ints_so_far = []
    used = set()
    for nm in names:
        if nm in used and nm != "_":
            continue
        used.add(nm)
        roll = draw(st.integers(0, 19))
        if nm == "_":
            lines.append(f"{draw(st.sampled_from(INTS + ['char']))} _;")
            continue
        if roll < 2 and kind == "struct" and nm != "_":
            t = draw(st.sampled_from(["uint8", "uint16", "uint32"]))
            bits = {"uint8": 8, "uint16": 16, "uint32": 32}[t]
            w1 = draw(st.integers(1, bits - 1))
            lines.append(f"{t} {nm} : {w1};")
            nm2 = nm + "_hi"
            lines.append(f"{t} {nm2} : {bits - w1};")
            continue
        if roll < 4 and depth > 0:
            k2 = draw(st.sampled_from(["struct", "union"]))
            form = draw(st.integers(0, 3))
            anon_member = form == 0 and kind == "struct" and nm != "_"
            # an anonymous member's field names are folded into ours: generate them with a unique prefix
            sub, d2 = draw(struct_body(env, depth - 1, k2, keywords, prefix=f"{nm}_" if anon_member else ""))
            deps |= d2
            # tags are unique: C gives struct tags file scope, so a repeated tag with another body is not a valid
            # definition (cross-definition collisions are exercised by C13's dedicated collision stage)
            tag = draw(st.sampled_from(["", "", f" tag_{nm}"])) if nm != "_" else ""
            shape = draw(st.integers(0, 7))
            if anon_member:
                lines.append(f"{k2} {{ {sub} }};")
            elif form == 1 and shape == 0:
                lines.append(f"{k2}{tag} {{ {sub} }} {nm}[{draw(st.integers(1, 3))}][{draw(st.integers(1, 2))}];")  # rows of inline structures
            elif form == 1 and shape == 1:
                lines.append(f"{k2}{tag} {{ {sub} }} *{nm}[{draw(st.integers(1, 2))}];")
            elif form != 1 and shape == 0:
                lines.append(f"{k2}{tag} {{ {sub} }} *{nm};")  # an inline structure that is only pointed to
            elif form == 1:
                lines.append(f"{k2}{tag} {{ {sub} }} {nm}[{draw(st.integers(1, 3))}];")
            else:
                lines.append(f"{k2}{tag} {{ {sub} }} {nm};")
            continue
        choices = ["scalar"] * 6
        if env["enums"]:
            choices += ["enum"] * 2
        if env["structs"]:
            choices += ["struct"] * 3
        if env["aliases"]:
            choices += ["alias"] * 3
        c = draw(st.sampled_from(choices))
        if c == "scalar":
            t = draw(st.sampled_from(SCALARS))
        elif c == "enum":
            t = draw(st.sampled_from(sorted(env["enums"])))
            deps.add(t)
        elif c == "struct":
            t = draw(st.sampled_from(sorted(env["structs"])))
            deps.add(t)
            if draw(st.booleans()):
                t = "struct " + t if env["structs"][t] == "struct" else t
        else:
            t = draw(st.sampled_from(sorted(env["aliases"])))
            deps.add(t)
        decl = nm
        form = draw(st.integers(0, 11))
        if form == 0:
            decl = draw(st.sampled_from(["*", "*", "**"])) + nm
        elif form == 1:
            decl = f"{nm}[{draw(st.integers(0, 4))}]"
        elif form == 2 and env["defines"]:
            dn = draw(st.sampled_from(sorted(env["defines"])))
            deps.add(dn)
            decl = f"{nm}[{dn}]"
        elif form == 3 and ints_so_far:
            ref = draw(st.sampled_from(ints_so_far))
            decl = f"{nm}[{draw(st.sampled_from(['{r}', '{r} + 1', '{r} * 2', '({r} & 3) + 1'])).format(r=ref)}]"
        elif form == 4:
            decl = f"{nm}[{draw(st.integers(1, 3))}][{draw(st.integers(1, 3))}]"
        elif form == 5:
            decl = f"*{nm}[{draw(st.integers(1, 2))}]"
        elif form == 6 and t in ("char", "wchar", "uint8", "uint16"):
            decl = f"{nm}[]"
        if decl == nm and t in INTS:
            ints_so_far.append(nm)
        lines.append(f"{t} {decl};")
    return " ".join(lines), deps


@st.composite
def defset(draw, max_items=8, keywords=False, array_typedefs=True):
    env = {"defines": {}, "enums": {}, "structs": {}, "aliases": {}}
    items = []
    n = draw(st.integers(3, max_items))
    counter = 0
    for _ in range(n):
        counter += 1
        k = draw(st.sampled_from(["define", "enum", "struct", "struct", "struct", "typedef", "typedef_struct", "union"]))
        if k == "define":
            name = f"K{counter}"
            if env["defines"] and draw(st.booleans()):
                ref = draw(st.sampled_from(sorted(env["defines"])))
                val = draw(st.sampled_from(["{r} + 1", "({r} * 2)", "{r} | 0x10", "{r}"])).format(r=ref)
                deps = {ref}
                v = None
            elif draw(st.integers(0, 5)) == 0:
                # string / bytes / character literals holding comment markers: the comment stripper leaves them alone
                val = draw(st.sampled_from(['"/*"', '"a//b"', "'/'", 'b"a//b"', '"*/"', '"/* x */ y"', '"it\'s // fine"']))
                deps = set()
                v = None
            else:
                v = draw(st.integers(0, 6))
                val = draw(st.sampled_from(["{v}", "0x{v:x}", "{v}u", "({v})"])).format(v=v)
                deps = set()
            if not (val[:1] in "\"'b" and not val[:1].isdigit() and (val.startswith(("\"", "'", "b\"")))):
                env["defines"][name] = True  # (literal-valued constants are not used in later expressions)
            items.append(Item("define", name, f"#define {name} {val}\n", deps))
        elif k == "enum":
            name = f"E{counter}"
            kind = draw(st.sampled_from(["enum", "flag"]))
            base = draw(st.sampled_from(["uint8", "uint16", "uint32", "int16", "unsigned int", None]))
            nm = draw(st.integers(1, 4))
            ms = []
            deps = set()
            for i in range(nm):
                how = draw(st.integers(0, 5))
                mname = f"{name}_{'ABCD'[i]}"
                if how < 3:
                    ms.append(mname)
                elif how < 5 or not ms:
                    ms.append(f"{mname} = {draw(st.integers(0, 20))}")
                else:
                    prev = ms[-1].split(" =")[0]
                    ms.append(f"{mname} = {prev} + {draw(st.integers(1, 3))}" if kind == "enum" else f"{mname} = {prev} << 1")
            anon = draw(st.integers(0, 6)) == 0
            head = f"{kind} {'' if anon else name + ' '}" + (f": {base} " if base else "")
            text = head + "{ " + ", ".join(ms) + " };\n"
            if not anon:
                env["enums"][name] = True
            items.append(Item("enum", name, text, deps, names=[] if anon else [name]))
            if anon:
                items[-1].anon_members = [m.split(" =")[0] for m in ms]
        elif k in ("struct", "union"):
            name = f"S{counter}"
            body, deps = draw(struct_body(env, 2, k, keywords))
            selfref = ""
            if k == "struct" and draw(st.integers(0, 4)) == 0:
                selfref = f" {name} *link;"
            trailing = draw(st.sampled_from([[], [], [], [f"{name}_t"], [f"{name}_t", f"typedef_{name}"]]))
            text = f"{k} {name} {{ {body}{selfref} }}{' ' + ', '.join(trailing) if trailing else ''};\n"
            env["structs"][name] = k
            for tn in trailing:
                env["aliases"][tn] = True
            items.append(Item(k, name, text, deps, names=[name] + trailing))
        elif k == "typedef":
            name = draw(st.sampled_from(["T{c}", "T{c}", "typedef_{c}", "struct_{c}", "union{c}", "enum{c}_t"])).format(c=counter)
            srcs = [("scalar", s) for s in SCALARS[:12]] + [("alias", a) for a in env["aliases"]] + [("struct", s) for s in env["structs"]] + [("enum", e) for e in env["enums"]]
            # by tag: 'typedef struct S1 T;' / 'typedef struct _TS3 *P;' (the tag of an earlier 'typedef struct _TS3 {...} TS3;')
            srcs += [("tagged", s) for s in env["structs"]] * 2 + [("tagged", t_) for t_ in env.get("tags", {})] * 3
            # further names for a structure that has only ever been named by its typedef
            srcs += [("alias", a) for a in env.get("untagged", [])] * 4
            kind_, src = draw(st.sampled_from(srcs))
            deps = set() if kind_ == "scalar" else {src}
            if kind_ == "tagged":
                src = f"{env['structs'].get(src) or env['tags'][src]} {src}"
            form = draw(st.integers(0, 7)) if array_typedefs else 2
            decl = name
            if form == 0:
                decl = f"{name}[{draw(st.integers(1, 4))}]"
            elif form == 1:
                decl = f"*{name}"
            items.append(Item("typedef", name, f"typedef {src} {decl};\n", deps))
            env["aliases"][name] = True
        else:
            name = f"TS{counter}"
            body, deps = draw(struct_body(env, 1, "struct", keywords))
            k2 = draw(st.sampled_from(["struct", "union"]))
            tag = draw(st.sampled_from(["", f"_{name} "]))
            extra = draw(st.sampled_from([[], [f"{name}_B"], [f"{name}_B", f"{name}_C"]]))
            names = [name] + extra
            text = f"typedef {k2} {tag}{{ {body} }} {', '.join(names)};\n"
            allnames = names + ([tag.strip()] if tag else [])
            for nm_ in names:
                env["aliases"][nm_] = True
            if tag:
                env.setdefault("tags", {})[tag.strip()] = k2
            else:
                env.setdefault("untagged", []).extend(names)
            items.append(Item("typedef_struct", name, text, deps, names=allnames))
    return items


# ---------------------------------------------------------------- tokens and trivia

_TOK = re.compile(
    r"(?P<define>#define[^\n]*\n)"
    r"|(?P<bracket>\[[^\]\n]*\])"
    r"|(?P<word>[A-Za-z_0-9]+)"
    r"|(?P<op><<|>>|[{};,=:*()+\-|&~^/%])"
    r"|(?P<ws>\s+)"
)


def tokenize(text):
    """-> list of (token, separator_after). '#define' lines and 'name[...]' declarators are atomic tokens."""
    toks = []
    pos = 0
    while pos < len(text):
        m = _TOK.match(text, pos)
        if not m:
            raise ValueError(f"cannot tokenize at {pos}: {text[pos:pos + 20]!r}")
        if m.lastgroup == "ws":
            if toks:
                toks[-1][1] += m.group(0)
        else:
            toks.append([m.group(0), ""])
        pos = m.end()
    return toks


TRIVIA = [
    " ", "  ", "\t", "\n", " \n  ", "\n\n",
    "/* c */", "/**/", "/* struct { uint8 x; }; */", "/* a ; } { */", "/* multi\n line */", "/* it's \"quoted\" */", "/* // nested */", "/***/", "/* * ** */",
    "// line comment\n", "// uint16 hidden;\n", "//\n", "// it's } ; {\n", " // trailing */ comment\n",
    "// see /* below\n", "/*/ x */", "\f", "\v", "/* // */", "// /* not opened\n",
]


def join(toks, inserts=None, crlf=False):
    """inserts: {boundary index i -> trivia placed after token i (in addition to the original separator)}"""
    out = []
    for i, (t, sep) in enumerate(toks):
        out.append(t)
        tr = (inserts or {}).get(i, "")
        out.append(sep + tr)
    text = "".join(out)
    if crlf:
        text = text.replace("\r\n", "\n").replace("\n", "\r\n")
    return text


def join_compact(toks):
    """The same tokens with every separator dropped that C does not need: a blank stays only between two word characters,
    after 'enum' / 'flag' (the library's grammar wants it there) and around '#define' lines."""
    out = []
    for i, (t, sep) in enumerate(toks):
        out.append(t)
        if i + 1 == len(toks):
            out.append(sep)
            break
        nxt = toks[i + 1][0]
        if t.startswith("#define") or nxt.startswith("#define"):
            out.append(sep if "\n" in sep or t.endswith("\n") else "\n")
        elif t in ("enum", "flag"):
            out.append(" ")
        elif (t[-1].isalnum() or t[-1] == "_") and (nxt[0].isalnum() or nxt[0] == "_"):
            out.append(" ")
        else:
            out.append("")
    return "".join(out)


def allowed_boundaries(toks):
    """Boundaries (after token i) where trivia may be inserted: not inside '#define' lines (atomic) and not between a
    '*' and its declarator when that is a bracketed declarator token (handled as part of the token)."""
    ok = []
    for i in range(len(toks) - 1):
        ok.append(i)
    return ok
