"""Hypothesis strategies for definitions (model dicts), values and inputs. All randomness is Hypothesis'."""
from __future__ import annotations

from hypothesis import strategies as st

from pbt import refsem
from pbt.refsem import SCALARS, S, Sem, fkey

HAZARD_NAMES = [
    "size", "type", "fields", "lookup", "alignment", "dynamic", "name", "value", "hash", "any", "other",
    "class", "in", "u", "_", "cs", "read", "data", "obj", "r", "s", "o", "buf", "stream", "context", "from", "is",
]
PLAIN_NAMES = [f"f{i}" for i in range(12)] + ["a", "b", "c", "n", "x", "y", "len", "count", "flags", "hdr"]

INT_PACKED = ["int8", "uint8", "int16", "uint16", "int32", "uint32", "int64", "uint64"]
INT_ODD = ["int24", "uint24", "int48", "uint48", "int128", "uint128"]
FLOATS = ["float16", "float", "double"]

DEFAULT_OPTS = dict(
    ints=INT_PACKED + INT_ODD, floats=True, char=True, wchar=True, leb=True, void=True, enums=True, bits=True,
    arrays=True, expr=True, null=True, eof=True, pointers=True, nested=True, unions=True, anon=True,
    max_depth=2, max_fields=6, dynamic=True, hazard=True, multidim=True, struct_arrays=True, zero_len=True,
    mixed_align=False, long_strings=False, null_structs=False, multidim_dyn=False, anon_nested=False, bits_char=False, bits_odd=False, wide_bits=False,
)


LONG_LENGTHS = [31, 32, 33, 63, 64, 65, 127, 128, 129, 255, 256, 257, 300, 511, 512, 513, 1000, 1023, 1024, 1025, 2048, 4095, 4096, 4097, 5000, 8191, 8192, 8193]


def opts(**kw):
    o = dict(DEFAULT_OPTS)
    o.update(kw)
    if not o["dynamic"]:
        o.update(leb=False, expr=False, null=False, eof=False)
    return o


class NameSrc:
    def __init__(self, hazard):
        self.used = set()
        self.hazard = hazard
        self.n = 0

    def fresh_type(self, prefix="T"):
        self.n += 1
        return f"{prefix}{self.n}"


def field_name(draw, used, hazard):
    pool = [n for n in (PLAIN_NAMES + (HAZARD_NAMES if hazard else [])) if n not in used or n == "_"]
    if hazard and draw(st.integers(0, 4)) == 0:
        hz = [n for n in HAZARD_NAMES if n not in used and n != "_"]
        if hz:
            n = draw(st.sampled_from(hz))
            used.add(n)
            return n
    pl = [n for n in PLAIN_NAMES if n not in used]
    if not pl:
        k = len(used)
        while f"g{k}" in used:
            k += 1
        n = f"g{k}"
    else:
        n = pl[draw(st.integers(0, min(len(pl) - 1, 5)))]
    used.add(n)
    return n


def int_scalar(draw, o):
    return draw(st.sampled_from(o["ints"]))


@st.composite
def enum_def(draw, names, o, name=None):
    kind = draw(st.sampled_from(["enum", "flag"]))
    base = draw(st.sampled_from([b for b in o["ints"] if b in INT_PACKED + INT_ODD]))
    if kind == "flag" and SCALARS[base][3] and (not o.get("signed_flags", True) or draw(st.integers(0, 7)) != 0) and ("u" + base) in o["ints"]:
        base = "u" + base  # flags over signed bases are a rare, separately counted class (known finding KF-FLAG)
    size = SCALARS[base][1]
    signed = SCALARS[base][3]
    n = draw(st.integers(1, 4))
    members = []
    val = 1 if kind == "flag" else 0
    hi = (1 << (size * 8 - (1 if signed else 0))) - 1
    for i in range(n):
        if draw(st.booleans()):
            val = draw(st.integers(0, min(hi, 40)))
        if val > hi:
            break
        members.append([f"{'M' if name is None else name.upper()}_{i}", val])
        val = val + 1 if kind == "enum" else (1 << val.bit_length())
    if not members:
        members = [["M_0", 0]]
    return {"k": "enumdef", "n": name or names.fresh_type("E"), "kind": kind, "base": base, "members": members}


LEN_EXPRS = [
    ("{n}", lambda n: ["id", n]),
    ("{n} + 1", lambda n: ["bin", "+", ["id", n], ["lit", 1, "1"]]),
    ("{n} * 2", lambda n: ["bin", "*", ["id", n], ["lit", 2, "2"]]),
    ("{n} - 2", lambda n: ["bin", "-", ["id", n], ["lit", 2, "2"]]),
    ("({n} & 3) * 2", lambda n: ["bin", "*", ["par", ["bin", "&", ["id", n], ["lit", 3, "3"]]], ["lit", 2, "2"]]),
    ("-{n} + 3", lambda n: ["bin", "+", ["un", "-", ["id", n]], ["lit", 3, "3"]]),
    ("{n} + sizeof(uint16)", lambda n: ["bin", "+", ["id", n], ["sizeof", "uint16"]]),
    ("{n}>>1", lambda n: ["bin", ">>", ["id", n], ["lit", 1, "1"]]),
]


def _elem_type(draw, o, defs, names, depth, for_null=False):
    """Element/field base type (non-array)."""
    choices = ["int"] * 5
    if o["floats"] and not for_null:
        choices.append("float")
    if o["char"]:
        choices.append("char")
    if o["wchar"]:
        choices.append("wchar")
    if o["leb"]:
        choices.append("leb")
    if o["enums"]:
        choices += ["enum"]
    if o["nested"] and depth > 0:
        choices += ["struct", "struct"] * o.get("struct_weight", 1)
        if o["unions"] and not for_null:
            choices.append("union")
    if o["pointers"] and not for_null:
        choices.append("ptr")
    if o.get("refs") and not for_null and (o["dynamic"] or all(Sem(defs, {"endian": "<"}).size({"k": "ref", "n": r}) is not None for r in o["refs"])):
        choices += ["ref"] * 4
    c = draw(st.sampled_from(choices))
    if c == "ref":
        return {"k": "ref", "n": draw(st.sampled_from(o["refs"]))}
    if c == "int":
        return S(int_scalar(draw, o))
    if c == "float":
        return S(draw(st.sampled_from(FLOATS)))
    if c == "char":
        return S("char")
    if c == "wchar":
        return S("wchar")
    if c == "leb":
        return S(draw(st.sampled_from(["uleb128", "ileb128"])))
    if c == "enum":
        existing = [d for d in defs if d["k"] == "enumdef"]
        if existing and draw(st.booleans()):
            return {"k": "e", "n": draw(st.sampled_from(existing))["n"]}
        d = draw(enum_def(names, o))
        defs.append(d)
        return {"k": "e", "n": d["n"]}
    if c in ("struct", "union"):
        if for_null:
            sub = opts(**{**o, "floats": False, "char": False, "wchar": False, "leb": False, "enums": False, "bits": False, "arrays": False, "pointers": False, "nested": False, "void": False, "dynamic": False})
            return draw(struct_type(sub, defs, names, depth - 1, kind="struct", name=None))
        sub = dict(o)
        if c == "union":
            sub = opts(**{**o, "dynamic": False, "bits": False, "void": False})
        return draw(struct_type(sub, defs, names, depth - 1, kind=c, name=None))
    if c == "ptr":
        tgt = draw(st.sampled_from(["uint8", "uint32", "char", "int16", "uint64"]))
        t = {"k": "p", "t": S(tgt)}
        if draw(st.integers(0, 5)) == 0:
            t = {"k": "p", "t": t}
        return t
    raise ValueError(c)


def _folded_names(t):
    out = []
    for f in t["fields"]:
        if f["name"] is None and f["t"]["k"] == "st":
            out += _folded_names(f["t"])
        else:
            out.append(f["name"])
    return out


@st.composite
def struct_type(draw, o, defs, names, depth, kind="struct", name=None, top=False):
    nf = draw(st.integers(1, o["max_fields"]))
    fields = []
    used = set()
    int_fields = []  # names usable in length expressions
    i = 0
    last_dynamic_eof = False
    open_unit = None  # (storage scalar name, bits left) of a bit-field unit still open at the end of `fields`
    while i < nf and not last_dynamic_eof:
        i += 1
        roll = draw(st.integers(0, 19))
        bits_now = kind == "struct" and o["bits"] and roll < o.get("bits_weight", 3)
        if not bits_now:
            open_unit = None
        # bit-field run
        if bits_now:
            pool = [b for b in o["ints"] if b in INT_PACKED] or ["uint8"]
            if o.get("bits_char") and o["char"]:
                pool = pool + ["char"]
            if o.get("bits_odd"):
                # 24/48/128-bit storage units (a 3-byte unit aligned to 4: the next member follows at +3)
                pool = pool + [b for b in o["ints"] if b in INT_ODD]
            storage = draw(st.sampled_from(pool))
            if o["enums"] and draw(st.integers(0, 4)) == 0:
                ed = draw(enum_def(names, opts(**{**o, "ints": [b for b in o["ints"] if b in INT_PACKED] or ["uint8"]})))
                defs.append(ed)
                ftype = {"k": "e", "n": ed["n"]}
                unit_bits = SCALARS[ed["base"]][1] * 8
            else:
                ftype = S(storage)
                unit_bits = SCALARS[storage][1] * 8
            left = unit_bits
            sname = ftype["n"] if ftype["k"] == "s" else ed["base"]
            if open_unit and open_unit[0] == sname and open_unit[1] > 0:
                left = open_unit[1]  # same storage type right after another run: the open unit continues
            for _ in range(draw(st.integers(1, 4))):
                w = draw(st.integers(1, min(left, 9))) if left > 0 else 0
                if w == 0:
                    break
                if o.get("wide_bits") and left > 9 and draw(st.integers(0, 3)) == 0:
                    w = draw(st.integers(1, left))  # widths beyond 9 that do not end the unit (32/64/128-bit units)
                if draw(st.integers(0, 6)) == 0:
                    w = left  # fill the unit exactly
                fn = field_name(draw, used, o["hazard"])
                fields.append({"name": fn, "t": ftype, "bits": w})
                int_fields.append(fn)
                left -= w
                if left == 0 and draw(st.booleans()):
                    left = unit_bits  # next field starts a fresh unit of the same type
            open_unit = (sname, left if left != unit_bits else 0)
            continue
        if o["void"] and roll == o.get("bits_weight", 3) and kind == "struct":
            fields.append({"name": field_name(draw, used, o["hazard"]), "t": S("void"), "bits": None})
            continue
        # anonymous inline member
        if o["anon"] and o["nested"] and depth > 0 and o.get("bits_weight", 3) + 1 <= roll <= o.get("bits_weight", 3) + o.get("anon_weight", 1):
            sub = opts(**{**o, "anon": bool(o.get("anon_nested")), "anon_nested": False, "hazard": False})
            akind = draw(st.sampled_from(["struct", "union"] if o["unions"] else ["struct"]))
            if akind == "union":
                sub = opts(**{**sub, "dynamic": False, "bits": False, "void": False})
            inner = draw(struct_type(sub, defs, names, depth - 1 if not o.get("anon_nested") else max(depth - 1, 1), kind=akind, name=None))
            # folded names (also those of an anonymous member inside the anonymous member) must be unique in the parent
            folded = _folded_names(inner)
            clash = any((nm in used and nm != "_") or nm is None for nm in folded) or len(set(folded)) != len(folded)
            if not clash:
                for nm in folded:
                    used.add(nm)
                fields.append({"name": None, "t": inner, "bits": None})
                continue
        if o.get("null_structs") and o["null"] and o["arrays"] and o["nested"] and depth > 0 and kind == "struct" and draw(st.integers(0, 11)) == 0:
            # x[] over a structure of integers: the terminator is the element whose fields are ALL zero
            sub = opts(**{**o, "floats": False, "char": False, "wchar": False, "leb": False, "enums": False, "bits": False, "arrays": False, "pointers": False, "nested": False, "void": False, "dynamic": False, "anon": False, "max_fields": 3})
            el = draw(struct_type(sub, defs, names, depth - 1, kind="struct", name=None))
            fields.append({"name": field_name(draw, used, o["hazard"]), "t": {"k": "a", "t": el, "len": ["null"]}, "bits": None})
            continue
        base = _elem_type(draw, o, defs, names, depth)
        t = base
        fn = field_name(draw, used, o["hazard"])
        is_dyn_union_ctx = kind == "union"
        athr = 6 if o.get("array_weight") else 12
        if o["arrays"] and roll >= athr and base["k"] != "p" or (o["arrays"] and base["k"] == "p" and roll >= 17):
            forms = ["fixed", "fixed", "fixed"]
            base_dyn = Sem(defs, {"endian": "<"}).size(base) is None
            if o["expr"] and int_fields and not is_dyn_union_ctx and Sem(defs, {"endian": "<"}).min_size(base) != 0:
                # zero-size elements under a data-dependent count never reach end of input: a raw count of 2^60 would
                # allocate without bound in any parser (not a subject of the listed properties)
                forms += ["expr", "expr"]
            scalar_like = base["k"] in ("s", "e") and not (base["k"] == "s" and base["n"] in FLOATS + ["void"])
            if o["null"] and not is_dyn_union_ctx and scalar_like:
                forms.append("null")
            if o["eof"] and not o.get("align_hint") and top and i == nf and not is_dyn_union_ctx and kind == "struct":
                forms.append("eof")
            if Sem(defs, {"endian": "<"}).min_size(base) == 0:
                forms = [f for f in forms if f not in ("eof", "null")]  # zero-size elements: extent undefined
            form = draw(st.sampled_from(forms))
            if form == "fixed":
                n = draw(st.integers(0 if o["zero_len"] else 1, o.get("max_len", 4)))
                if base_dyn and not o["dynamic"]:
                    n = 1
                t = {"k": "a", "t": base, "len": ["fixed", n]}
                if o["multidim"] and draw(st.integers(0, 5)) == 0:
                    t = {"k": "a", "t": t, "len": ["fixed", draw(st.integers(1, 3))]}
            elif form == "expr":
                ref = draw(st.sampled_from(int_fields))
                tmpl, mk = draw(st.sampled_from(LEN_EXPRS))
                t = {"k": "a", "t": base, "len": ["expr", tmpl.format(n=ref), mk(ref)]}
                if o["multidim"] and draw(st.integers(0, 7)) == 0:
                    t = {"k": "a", "t": t, "len": ["fixed", draw(st.integers(1, 2))]}
                elif o.get("multidim_dyn") and draw(st.integers(0, 5)) == 0:
                    # x[expr][m]: the data-dependent count is the OUTER dimension
                    t = {"k": "a", "t": {"k": "a", "t": base, "len": ["fixed", draw(st.integers(1, 3))]}, "len": t["len"]}
            elif form == "null":
                t = {"k": "a", "t": base, "len": ["null"]}
                if o.get("multidim_dyn") and draw(st.integers(0, 5)) == 0:
                    t = {"k": "a", "t": t, "len": ["fixed", draw(st.integers(1, 3))]}  # x[k][]: k terminated rows
            else:
                t = {"k": "a", "t": base, "len": ["eof"]}
                if o.get("multidim_dyn") and not base_dyn and draw(st.integers(0, 3)) == 0:
                    t = {"k": "a", "t": {"k": "a", "t": base, "len": ["fixed", draw(st.integers(1, 3))]}, "len": ["eof"]}  # x[EOF][m]
                last_dynamic_eof = True
        if t["k"] == "s" and t["n"] in INT_PACKED + INT_ODD:
            int_fields.append(fn)
        fields.append({"name": fn, "t": t, "bits": None})
    if not fields:
        fields.append({"name": "a", "t": S("uint8"), "bits": None})
    return {"k": "st", "kind": kind, "name": name, "fields": fields}


@st.composite
def definition(draw, o=None, root_kind="struct"):
    """-> {"defs": [...], "root": name}; the root is a named top-level struct/union declared last."""
    o = o or opts()
    names = NameSrc(o["hazard"])
    defs = []
    if o.get("mixed_align") and "align_hint" in o and draw(st.integers(0, 3)) == 0:
        # a named structure loaded with the OTHER alignment mode (its own load() call) and used as a member
        io = dict(o)
        io.update(max_depth=0, max_fields=4, anon=False, eof=False, refs=None, mixed_align=False)
        inner = draw(struct_type(io, defs, names, 0, kind="struct", name=None))
        inner["align"] = not o["align_hint"]
        defs.append({"k": "structdef", "n": "Foreign", "t": inner})
        o = dict(o)
        o["refs"] = ["Foreign"]
    root = draw(struct_type(o, defs, names, o["max_depth"], kind=root_kind, name=None, top=True))
    root["name"] = None
    defs.append({"k": "structdef", "n": "Root", "t": root})
    return {"defs": defs, "root": "Root"}


@st.composite
def config(draw, ptrs=("uint8", "uint16", "uint32", "uint64"), compiled=None, align=None, flip=False, grow=False):
    cfg = {
        "endian": draw(st.sampled_from(["<", ">", "<", ">", "!"])),
        "align": draw(st.booleans()) if align is None else align,
        "ptr": draw(st.sampled_from(list(ptrs))),
        "compiled": draw(st.booleans()) if compiled is None else compiled,
    }
    if flip and draw(st.integers(0, 3)) == 0:
        # the definitions are loaded under ANOTHER byte order, which is switched to cfg["endian"] before anything is parsed
        # or dumped (byte order is configuration read at parse/dump time, also by already compiled readers: C05)
        cfg["load_endian"] = draw(st.sampled_from([e for e in "<>" if e != {"!": ">"}.get(cfg["endian"], cfg["endian"])] + (["!"] if cfg["endian"] == "<" else [])))
    if (flip or grow) and draw(st.integers(0, 4)) == 0:
        # Root gets an incremental history: declared without its last members, used, completed through add_field (libside.load)
        cfg["grow"] = [draw(st.integers(0, 5)), draw(st.booleans())]
    return cfg


# ---------------------------------------------------------------- values

def boundary_int(draw, size, signed, small=False):
    bits = size * 8
    lo, hi = (-(1 << (bits - 1)), (1 << (bits - 1)) - 1) if signed else (0, (1 << bits) - 1)
    if small:
        return draw(st.integers(0, 5))
    k = draw(st.integers(0, 9))
    if k < 4:
        cands = [0, 1, hi, lo, hi - 1, lo + 1, 1 << (bits - 1) if not signed else -1, (1 << (bits // 2)), 0x7F, 0x80, 0xFF, 2]
        cands = [c for c in cands if lo <= c <= hi]
        return draw(st.sampled_from(cands))
    if k < 7:
        return draw(st.integers(max(lo, -3), min(hi, 300)))
    return draw(st.integers(lo, hi))


WCHARS = st.one_of(
    st.sampled_from(list("aZ0 é€中￿Ā\u0001\u0100\u4e00\u0200\u00ff\u0041\u1100")),  # incl. code units with a zero low / high byte
    st.characters(min_codepoint=1, max_codepoint=0xFFFF, exclude_categories=["Cs"]),
)


def gen_scalar(draw, name, small=False, nonzero=False):
    c, size, _, info = SCALARS[name]
    if c == "int":
        v = boundary_int(draw, size, info, small)
        if nonzero and v == 0:
            v = 1
        return v
    if c == "float":
        if draw(st.integers(0, 3)) == 0:
            return draw(st.sampled_from([0.0, 1.0, -1.0, 0.5, float("inf"), -float("inf"), 1.5, -0.0, 65504.0]))
        return draw(st.floats(allow_nan=False, width={2: 16, 4: 32, 8: 64}[size]))
    if c == "char":
        b = draw(st.integers(1 if nonzero else 0, 255))
        return bytes([b])
    if c == "wchar":
        ch = draw(WCHARS)
        if not nonzero and draw(st.integers(0, 9)) == 0:
            ch = "\x00"
        return ch
    if c == "leb":
        if small:
            return draw(st.integers(0, 5))
        k = draw(st.integers(0, 5))
        mag = draw(st.sampled_from([0, 1, 63, 64, 127, 128, 8191, 8192, 2**31, 2**64 + 1])) if k < 3 else draw(st.integers(0, 2**70))
        v = -mag if (info and draw(st.booleans())) else mag
        if nonzero and v == 0:
            v = 1
        return v
    if c == "void":
        return None
    raise ValueError(name)


def referenced_names(st_node):
    out = set()

    def walk_ast(a):
        if a[0] == "id":
            out.add(a[1])
        elif a[0] in ("un",):
            walk_ast(a[2])
        elif a[0] == "par":
            walk_ast(a[1])
        elif a[0] == "bin":
            walk_ast(a[2])
            walk_ast(a[3])

    def walk_t(t):
        while t["k"] == "a":
            if t["len"][0] == "expr":
                walk_ast(t["len"][2])
            t = t["t"]

    for f in st_node["fields"]:
        walk_t(f["t"])
    return out


def gen_value(draw, sem, t, ctx=None, small=False, nonzero=False):
    t = sem.res(t)
    k = t["k"]
    if k == "s":
        return gen_scalar(draw, t["n"], small, nonzero)
    if k == "e":
        d = sem.enumdef(t)
        c = draw(st.integers(0, 3))
        if c < 2 and d["members"]:
            v = draw(st.sampled_from(d["members"]))[1]
            if not (nonzero and v == 0):
                return v
        return gen_scalar(draw, d["base"], small, nonzero)
    if k == "p":
        return gen_scalar(draw, sem.ptr, False, False)
    if k == "a":
        et = sem.res(t["t"])
        form = t["len"][0]
        if form in ("fixed", "expr"):
            n = sem._count(t, ctx)
            nz = False
        elif form == "null":
            n = draw(st.integers(0, 3))
            nz = True
        else:
            n = draw(st.integers(0, 3))
            nz = False
        if form in ("null", "eof") and et["k"] == "s" and et["n"] in ("char", "wchar") and getattr(sem, "long_strings", False) and draw(st.integers(0, 5)) == 0:
            # long terminated strings (lengths around typical chunk sizes), built from a short drawn pattern
            n = draw(st.sampled_from(LONG_LENGTHS))
            if et["n"] == "char":
                pat = bytes(b or 0x41 for b in draw(st.binary(min_size=3, max_size=7)))
                return (pat * (n // len(pat) + 1))[:n]
            pat = draw(st.sampled_from(["ab", "xyz€", "héllo", "q"]))
            return (pat * (n // len(pat) + 1))[:n]
        scalar_like = et["k"] == "e" or (et["k"] == "s" and et["n"] not in ("void",))
        if form in ("null", "eof") and scalar_like and not (et["k"] == "s" and et["n"] in ("char", "wchar")) and getattr(sem, "long_strings", False) and draw(st.integers(0, 9)) == 0:
            n = draw(st.sampled_from(LONG_LENGTHS[:17]))
        if n > 40:
            # long arrays: a short drawn pattern, repeated
            if not scalar_like:
                raise OverflowError("array too long for generation")
            if et["k"] == "s" and et["n"] == "char":
                pat = bytes((b or 0x41) if nz else b for b in draw(st.binary(min_size=3, max_size=7)))
                return (pat * (n // len(pat) + 1))[:n]
            if et["k"] == "s" and et["n"] == "wchar":
                pat = draw(st.sampled_from(["ab", "xyz€", "héllo", "q"]))
                return (pat * (n // len(pat) + 1))[:n]
            pat = [gen_value(draw, sem, et, ctx, nonzero=nz) for _ in range(3)]
            return [pat[i % 3] for i in range(n)]
        if et["k"] == "s" and et["n"] == "char":
            return b"".join(gen_scalar(draw, "char", nonzero=nz) for _ in range(n))
        if et["k"] == "s" and et["n"] == "wchar":
            # n counts UTF-16 code units: a character outside the BMP takes two of them (a valid surrogate pair)
            out, units = [], 0
            while units < n:
                if n - units >= 2 and draw(st.integers(0, 7)) == 0:
                    out.append(draw(st.sampled_from(["\U0001F600", "\U00010000", "\U0010FFFF", "\U0002A6D6"])))
                    units += 2
                else:
                    out.append(gen_scalar(draw, "wchar", nonzero=nz))
                    units += 1
            return "".join(out)
        return [gen_value(draw, sem, et, ctx, nonzero=nz) for _ in range(n)]
    if k == "st":
        if t["kind"] == "union":
            size = sem.size(t)
            for _ in range(3):
                raw = draw(st.binary(min_size=size, max_size=size))
                try:
                    v, _ = sem.decode(t, raw, 0)
                    if not refsem.has_nan(v):
                        return v
                except refsem.NonCanonical:
                    continue
            v, _ = sem.decode(t, bytes(size), 0)
            return v
        refs = referenced_names(t)
        res = {}
        first = True
        nzidx = 0
        if nonzero:
            # a non-terminator element: one drawn field is non-zero, the others (the first included) may be zero
            cands = [i for i, f in enumerate(t["fields"]) if not f.get("bits") and sem.res(f["t"])["k"] in ("s", "e")]
            nzidx = draw(st.sampled_from(cands)) if cands else 0
        longrefs = _long_count_fields(draw, sem, t, refs) if getattr(sem, "long_strings", False) else {}
        for i, f in enumerate(t["fields"]):
            key = fkey(f, i)
            if f.get("name") in longrefs and not f.get("bits"):
                res[key] = longrefs[f["name"]]
                first = False
                continue
            if f.get("bits"):
                v = draw(st.sampled_from([0, 1, (1 << f["bits"]) - 1, 1 << (f["bits"] - 1)])) if draw(st.booleans()) else draw(st.integers(0, (1 << f["bits"]) - 1))
                if f["name"] in refs:
                    v = min(v, 5)
                if sem.res(f["t"])["k"] == "e":
                    pass
                res[key] = v
            else:
                res[key] = gen_value(draw, sem, f["t"], res, small=f["name"] in refs, nonzero=nonzero and i == nzidx)
            first = False
        return res
    raise ValueError(k)


def _long_count_fields(draw, sem, t, refs):
    """Occasionally give ONE count field a large value (255..1000): only when every array whose length refers to it has
    scalar-like elements and a length expression that stays modest. -> {field name: value}"""
    if not refs or draw(st.integers(0, 11)) != 0:
        return {}
    ok = []
    for name in sorted(refs):
        fld = [f for f in t["fields"] if f.get("name") == name and not f.get("bits")]
        if not fld or sem.res(fld[0]["t"])["k"] != "s" or SCALARS[sem.res(fld[0]["t"])["n"]][0] != "int":
            continue
        size, signed = SCALARS[sem.res(fld[0]["t"])["n"]][1], SCALARS[sem.res(fld[0]["t"])["n"]][3]
        hi = (1 << (size * 8 - (1 if signed else 0))) - 1
        good = True
        for f in t["fields"]:
            ft = f["t"]
            if ft["k"] == "a" and ft["len"][0] == "expr" and name in _ids_of(ft["len"][2]):
                et = sem.res(ft["t"])
                if not (et["k"] == "e" or (et["k"] == "s" and et["n"] != "void")) or len(_ids_of(ft["len"][2])) != 1:
                    good = False
            elif _mentions(ft, name):
                good = False
        if good:
            ok.append((name, hi))
    if not ok:
        return {}
    name, hi = draw(st.sampled_from(ok))
    cands = [v for v in (255, 256, 257, 300, 1000) if v <= hi]
    if not cands:
        return {}
    return {name: draw(st.sampled_from(cands))}


def _ids_of(ast):
    out = set()
    if isinstance(ast, list):
        if len(ast) >= 2 and ast[0] == "id":
            out.add(ast[1])
        for x in ast[1:]:
            out |= _ids_of(x)
    return out


def _mentions(t, name):
    """Does a (nested) type refer to `name` in a length expression other than at its own top level?"""
    if t["k"] == "a":
        if t["t"]["k"] == "a" and t["t"]["len"][0] == "expr" and name in _ids_of(t["t"]["len"][2]):
            return True
        return _mentions(t["t"], name) if t["t"]["k"] != "a" else _mentions(t["t"], name) or (t["len"][0] == "expr" and name in _ids_of(t["len"][2]))
    if t["k"] == "st":
        return any((f["t"]["k"] == "a" and f["t"]["len"][0] == "expr" and name in _ids_of(f["t"]["len"][2])) or _mentions(f["t"], name) for f in t["fields"])
    if t["k"] == "p":
        return False
    return False


def fill_garbage(draw, data, mask, tail=True):
    """Non-zero garbage in every bit the reference says carries no data, plus a garbage tail."""
    out = bytearray(data)
    holes = [i for i in range(len(out)) if mask[i] != 0xFF]
    if holes:
        g = draw(st.binary(min_size=len(holes), max_size=len(holes)))
        flip = draw(st.booleans())
        for j, i in enumerate(holes):
            gb = g[j] if not flip else 0xFF
            out[i] = (out[i] & mask[i]) | (gb & ~mask[i] & 0xFF)
    if tail:
        out += draw(st.binary(max_size=4))
    return bytes(out)


ROOT = {"k": "ref", "n": "Root"}


def has_eof(t):
    if t["k"] == "a":
        return t["len"][0] == "eof" or has_eof(t["t"])
    if t["k"] == "st":
        return any(has_eof(f["t"]) for f in t["fields"])
    return False


@st.composite
def input_case(draw, o=None, cfg_kw=None, tail=True, root_kind="struct"):
    """A definition, a configuration and a constructive input: value tree drawn from the model, encoded by the
    reference, padding / unassigned bits filled with garbage, garbage tail appended."""
    from pbt.drive import HarnessError

    cfg = draw(config(**(cfg_kw or {})))
    # x[EOF] followed by alignment padding cannot round-trip by construction: only generated in packed mode
    o = dict(o or opts())
    o["align_hint"] = cfg["align"]
    d = draw(definition(o, root_kind=root_kind))
    sem = Sem(d["defs"], cfg)
    sem.long_strings = bool(o.get("long_strings"))
    v = gen_value(draw, sem, ROOT)
    enc = bytes(sem.encode(ROOT, v))
    mask = bytearray(len(enc))
    v2, end = sem.decode(ROOT, enc, 0, mask)
    if end != len(enc) or refsem.canon(v2) != refsem.canon(v):
        raise HarnessError(f"refsem encode/decode not inverse: {d} {cfg} {v!r} -> {enc.hex()} -> {v2!r} end={end}")
    root_t = sem.res(ROOT)
    data = fill_garbage(draw, enc, mask, tail=tail and not has_eof(root_t))
    return {"defs": d["defs"], "root": "Root", "cfg": cfg, "data": data.hex(), "consumed": len(enc)}
