"""Library-facing helpers: render a model to definition text, load it, canonicalise library values."""
from __future__ import annotations

import io

from pbt.drive import import_repo
from pbt.refsem import canon, fkey


# ---------------------------------------------------------------- rendering

def _type_spec(t, ind):
    k = t["k"]
    if k in ("s", "e", "ref"):
        return t["n"]
    if k == "st":
        head = t["kind"] + (f" {t['name']}" if t.get("name") else "")
        body = "".join(render_field(f, ind + "    ") for f in t["fields"])
        return f"{head} {{\n{body}{ind}}}"
    raise ValueError(k)


def split_decl(t):
    """-> (base type node, number of pointer stars, [dimension texts]) for a field of type t."""
    dims = []
    while t["k"] == "a":
        ln = t["len"]
        dims.append({"fixed": lambda: str(ln[2]) if len(ln) > 2 else str(ln[1]), "expr": lambda: ln[1], "null": lambda: "", "eof": lambda: "EOF"}[ln[0]]())
        t = t["t"]
    stars = 0
    while t["k"] == "p":
        stars += 1
        t = t["t"]
    if t["k"] == "a":
        raise ValueError("pointer to array is not expressible")
    return t, stars, dims


def render_field(f, ind="    "):
    base, stars, dims = split_decl(f["t"])
    spec = _type_spec(base, ind)
    if f.get("name") is None:
        return f"{ind}{spec};\n"
    decl = "*" * stars + f["name"] + "".join(f"[{d}]" for d in dims)
    if f.get("bits"):
        decl += f" : {f['bits']}"
    return f"{ind}{spec} {decl};\n"


def render_def(d):
    if d["k"] == "enumdef":
        ms = ", ".join(f"{n} = {v}" if not isinstance(v, list) else (n if v[0] is None else f"{n} = {v[0]}") for n, v in d["members"])
        return f"{d['kind']} {d['n']} : {d['base']} {{ {ms} }};\n"
    if d["k"] == "structdef":
        t = d["t"]
        body = "".join(render_field(f) for f in t["fields"])
        return f"{t['kind']} {d['n']} {{\n{body}}};\n"
    if d["k"] == "define":
        return f"#define {d['n']} {d['v']}\n"
    if d["k"] == "typedef":
        base, stars, dims = split_decl(d["t"])
        return f"typedef {_type_spec(base, '')} {'*' * stars}{d['n']}{''.join(f'[{x}]' for x in dims)};\n"
    raise ValueError(d["k"])


def render(defs):
    return "".join(render_def(d) for d in defs)


# ---------------------------------------------------------------- loading

def load(defs, cfg, compiled=None, text=None):
    m = import_repo()
    cs = m.cstruct(endian=cfg["endian"], pointer=cfg.get("ptr"))
    comp = cfg.get("compiled", False) if compiled is None else compiled
    if text is None and any("align" in d.get("t", {}) for d in defs if d["k"] == "structdef"):
        # mixed alignment modes: a named structure carries its own align flag and is loaded by its own load() call
        pending = []
        for d in defs:
            if d["k"] == "structdef" and "align" in d["t"]:
                if pending:
                    cs.load(render(pending), compiled=comp, align=bool(cfg.get("align")))
                    pending = []
                cs.load(render_def(d), compiled=comp, align=bool(d["t"]["align"]))
            else:
                pending.append(d)
        if pending:
            cs.load(render(pending), compiled=comp, align=bool(cfg.get("align")))
        return cs
    api = [d for d in defs if text is None and d["k"] == "structdef" and d["t"]["kind"] == "union" and any(f.get("offset") for f in d["t"]["fields"])]
    if api:
        # unions with explicit member offsets can only be built through the API (add_field(..., offset=N))
        rest = [d for d in defs if d not in api]
        if rest:
            cs.load(render(rest), compiled=comp, align=bool(cfg.get("align")))
        for d in api:
            helper = {"k": "structdef", "n": d["n"] + "__members", "t": dict(d["t"], kind="struct")}
            cs.load(render_def(helper), compiled=False, align=False)
            ftypes = [f.type for f in cs.resolve(helper["n"]).__fields__]
            U = cs._make_union(d["n"], [], align=bool(cfg.get("align")))
            for f, ft in zip(d["t"]["fields"], ftypes):
                U.add_field(f["name"], ft, offset=f.get("offset") or None)
            cs.add_type(d["n"], U)
        return cs
    grow = _grow_plan(defs, cfg) if text is None else None
    if grow:
        # Root is declared without its last k members, USED, and then completed through the public API (add_field one by
        # one, or as one start_update batch): the finished type is the one-shot type (C18), so every check that loads
        # through here also sees types with an incremental history
        k, batch, rootdef = grow
        fields = rootdef["t"]["fields"]
        short = dict(rootdef, t=dict(rootdef["t"], fields=fields[:-k]))
        helper = {"k": "structdef", "n": "Root__tail", "t": {"k": "st", "kind": "struct", "name": None, "fields": fields[-k:]}}
        cs.load(render([d for d in defs if d is not rootdef] + [short]), compiled=comp, align=bool(cfg.get("align")))
        cs.load(render_def(helper), compiled=False, align=bool(cfg.get("align")))
        tail_types = [f.type for f in cs.resolve("Root__tail").__fields__]
        R = cs.Root
        try:
            R().dumps()
            o = R(bytes((i * 37 + 1) % 251 for i in range(64)))
            o.dumps()
        except Exception:  # noqa: BLE001 - the intermediate type may not accept these bytes (short input for a dynamic member, ...)
            pass
        if batch:
            with R.start_update():
                for f_, ft in zip(fields[-k:], tail_types):
                    R.add_field(f_["name"], ft)
        else:
            for f_, ft in zip(fields[-k:], tail_types):
                R.add_field(f_["name"], ft)
        return cs
    cs.load(text if text is not None else render(defs), compiled=comp, align=bool(cfg.get("align")))
    return cs


def _grow_plan(defs, cfg):
    """-> (k, batch, rootdef) when cfg asks for a Root with an incremental history and the definition allows it."""
    g = cfg.get("grow")
    if not g:
        return None
    rootdef = next((d for d in defs if d["k"] == "structdef" and d["n"] == "Root"), None)
    if rootdef is None or rootdef["t"]["kind"] != "struct" or "align" in rootdef["t"]:
        return None
    fields = rootdef["t"]["fields"]
    if any(f.get("bits") or f.get("offset") for f in fields):
        return None  # a bit-field's storage unit may span the split
    tail = 0
    for f in reversed(fields):
        if f.get("name") is None or f["name"] == "_":
            break
        tail += 1
    tail = min(tail, len(fields) - 1)
    if tail < 1:
        return None
    return 1 + g[0] % tail, bool(g[1]), rootdef


# ---------------------------------------------------------------- plain values

def plain(v):
    """Library value -> plain Python (ints incl. enums/pointers -> int, char -> bytes, wchar -> str, struct -> dict)."""
    m = import_repo()
    from dissect.cstruct.types.structure import UnionProxy

    while isinstance(v, UnionProxy):
        v = v.__target__
    if isinstance(v, m.Structure):
        out = {}
        for i, f in enumerate(type(v).__fields__):
            key = f.name if f.name else f"#{i}"
            out[key] = plain(getattr(v, f._name))
        return out
    if isinstance(v, m.Void):
        return None
    if isinstance(v, bool):
        return int(v)
    if isinstance(v, int):
        return int(v)
    if isinstance(v, float):
        return float(v)
    if isinstance(v, bytes):
        return bytes(v)
    if isinstance(v, str):
        return str(v)
    if isinstance(v, (list, tuple)):
        return [plain(x) for x in v]
    if v is None:
        return None
    # a value of a type no reader should produce (e.g. a raw bytearray as a field value): keep it comparable, so
    # that the oracle reports a value difference instead of the harness crashing
    return ("<unexpected>", type(v).__name__, repr(v)[:80])


def cplain(v):
    return canon(plain(v))


class Raw:
    """A value to be handed to the library as it is (not wrapped in the field's enum/flag class)."""

    def __init__(self, value):
        self.value = value


def build_value(cs_type, sem, t, v):
    """Instantiate a plain value as library objects through the public constructors (for direct construction)."""
    m = import_repo()
    if isinstance(v, Raw):
        return v.value
    t = sem.res(t)
    k = t["k"]
    if k == "st" and t["kind"] == "union":
        # a union constructed from keywords is rebuilt from its first given member only (documented); a coherent
        # union value is obtained by parsing its bytes
        mode = sem.union_write
        sem.union_write = "ideal"
        try:
            raw = bytes(sem.encode(t, v))
        finally:
            sem.union_write = mode
        return cs_type(raw)
    if k == "st":
        kwargs = {}
        for i, (f, lf) in enumerate(zip(t["fields"], cs_type.__fields__)):
            kwargs[lf._name] = build_value(lf.type, sem, f["t"], v[fkey(f, i)])
        return cs_type(**kwargs)
    if k == "a":
        et = sem.res(t["t"])
        if et["k"] == "s" and et["n"] in ("char", "wchar"):
            return v
        return [build_value(cs_type.type, sem, t["t"], e) for e in v]
    if k == "e":
        return cs_type(v)
    if k == "p":
        return v
    return v


def parse(typ, data, pos=0):
    """Parse from a BytesIO positioned at pos; -> (value, tell)."""
    s = io.BytesIO(data)
    s.seek(pos)
    v = typ._read(s) if False else typ(s)
    return v, s.tell()


def touch_mutable(obj, only=None):
    """Change the mutable members (lists, nested structures) of an instance in place; returns how many were changed."""
    m = import_repo()
    n = 0
    for f in type(obj).__fields__:
        if only is not None and f._name not in only:
            continue
        v = getattr(obj, f._name, None)
        if isinstance(v, list):
            if v:
                v.pop()
            else:
                v.append(0)
            n += 1
        elif isinstance(v, m.Structure) and not isinstance(v, m.Union):
            for g in type(v).__fields__:
                w = getattr(v, g._name, None)
                if isinstance(w, int) and not isinstance(w, bool):
                    setattr(v, g._name, int(w) ^ 1)
                    n += 1
                    break
                if isinstance(w, list):
                    if w:
                        w.pop()
                    else:
                        w.append(0)
                    n += 1
                    break
    return n
