"""Independent reference semantics for dissect.cstruct definitions. Never imports dissect.

Written from the property statements and the C rules (DESIGN.md Appendix A): layout, decode (with a mask of
data-carrying bits), encode (padding and unassigned bits zero), default values.

Type model (JSON-able dicts):
  {"k":"s","n":NAME}                                  scalar (see SCALARS)
  {"k":"e","n":NAME}                                  enum/flag, declared in defs: {"k":"enumdef","n","kind","base","members":[[name,value],..]}
  {"k":"a","t":T,"len":["fixed",n]|["expr",text,ast]|["null"]|["eof"]}
  {"k":"p","t":T}                                     pointer
  {"k":"st","kind":"struct"|"union","name":str|None,"fields":[{"name":str|None,"t":T,"bits":int|None}]}
  {"k":"ref","n":NAME}                                named struct/union declared in defs
cfg: {"endian":"<"|">","align":bool,"ptr":scalar name}
Values (plain): int, float, bytes (char / char arrays), str (wchar / wchar arrays), None (void), list, dict (struct/union,
keys = field name or "#<index>" for anonymous members).
"""
from __future__ import annotations

import struct as _struct

from pbt import exprref

# name -> (class, size, alignment, signed/format)
SCALARS = {
    "int8": ("int", 1, 1, True), "uint8": ("int", 1, 1, False),
    "int16": ("int", 2, 2, True), "uint16": ("int", 2, 2, False),
    "int32": ("int", 4, 4, True), "uint32": ("int", 4, 4, False),
    "int64": ("int", 8, 8, True), "uint64": ("int", 8, 8, False),
    "int24": ("int", 3, 4, True), "uint24": ("int", 3, 4, False),
    "int48": ("int", 6, 8, True), "uint48": ("int", 6, 8, False),
    "int128": ("int", 16, 16, True), "uint128": ("int", 16, 16, False),
    "float16": ("float", 2, 2, "e"), "float": ("float", 4, 4, "f"), "double": ("float", 8, 8, "d"),
    "char": ("char", 1, 1, None), "wchar": ("wchar", 2, 2, None),
    "uleb128": ("leb", None, 1, False), "ileb128": ("leb", None, 1, True),
    "void": ("void", 0, 1, None),
}


class Short(Exception):
    """Input ends before a data-carrying byte."""

    def __init__(self, at):
        super().__init__(f"short at {at}")
        self.at = at


class NonCanonical(Exception):
    """Input is decodable only non-canonically (NaN, non-minimal LEB128) or not at all (invalid UTF-16)."""


class RaggedEOF(Exception):
    """x[EOF] with a remainder that is not a whole number of elements (DESIGN §3.5: whole elements or an error)."""


class DefinitionError(Exception):
    pass


class Unsupported(Exception):
    """Outside what the reference models (e.g. dynamic unions)."""


def S(name):
    return {"k": "s", "n": name}


class Sem:
    def __init__(self, defs, cfg):
        self.defs = {d["n"]: d for d in defs}
        self.endian = "little" if cfg["endian"] == "<" else "big"
        self.echar = "<" if cfg["endian"] == "<" else ">"
        self.aligned = bool(cfg.get("align"))
        self.ptr = cfg.get("ptr", "uint64")
        self.consts = dict(cfg.get("consts", {}))
        self._lay = {}
        self.enum_leaves = None  # when a list: receives (pos, end, enumdef, value) for every enum/flag decoded
        self.union_spans = None  # when a list: receives (pos, end, union type) for every union decoded
        self.union_write = "ideal"  # "largest": encode unions the way the library's writer does (known finding KF-UNION-DUMP)

    # ------------------------------------------------------------ resolution / static facts
    def res(self, t):
        if t["k"] == "ref":
            return self.defs[t["n"]]["t"]
        return t

    def enumdef(self, t):
        return self.defs[t["n"]]

    def storage(self, t):
        """Scalar name that carries a bit-field / enum."""
        t = self.res(t)
        if t["k"] == "e":
            return self.enumdef(t)["base"]
        if t["k"] == "s":
            return t["n"]
        raise DefinitionError("bit-field on non-scalar")

    def size(self, t):
        t = self.res(t)
        k = t["k"]
        if k == "s":
            return SCALARS[t["n"]][1]
        if k == "e":
            return SCALARS[self.enumdef(t)["base"]][1]
        if k == "p":
            return SCALARS[self.ptr][1]
        if k == "a":
            if t["len"][0] != "fixed":
                return None
            es = self.size(t["t"])
            return None if es is None else es * t["len"][1]
        if k == "st":
            return self.layout(t)["size"]
        raise ValueError(k)

    def min_size(self, t):
        """Lower bound of the bytes one value of t consumes (0 = may consume nothing)."""
        t = self.res(t)
        k = t["k"]
        if k == "s":
            return 1 if SCALARS[t["n"]][0] == "leb" else SCALARS[t["n"]][1]
        if k in ("e", "p"):
            return self.size(t)
        if k == "a":
            form = t["len"][0]
            if form == "fixed":
                return t["len"][1] * self.min_size(t["t"])
            if form == "null":
                return self.min_size(t["t"])
            return 0
        if k == "st":
            parts = [1 if f.get("bits") else self.min_size(f["t"]) for f in t["fields"]]
            return (max(parts) if parts else 0) if t["kind"] == "union" else sum(parts)
        raise ValueError(k)

    def align(self, t):
        t = self.res(t)
        k = t["k"]
        if k == "s":
            return SCALARS[t["n"]][2]
        if k == "e":
            return SCALARS[self.enumdef(t)["base"]][2]
        if k == "p":
            return SCALARS[self.ptr][2]
        if k == "a":
            return self.align(t["t"])
        if k == "st":
            return self.layout(t)["align"]
        raise ValueError(k)

    def al(self, st):
        """Alignment mode of this structure (a named structure may have been loaded with its own align flag)."""
        return bool(st.get("align", self.aligned))

    def layout(self, st):
        """Static layout: per-field offset (None once dynamic; bit-fields get their unit's offset), size, align,
        and the storage-unit allocation of bit-fields (unit index per field)."""
        key = id(st)
        if key in self._lay:
            return self._lay[key]
        fields = st["fields"]
        algn = 1
        offs = []
        units = []  # per field: None or (unit_id, bit_offset_in_unit)
        if st["kind"] == "union":
            size = 0
            for f in fields:
                if f.get("bits"):
                    raise Unsupported("bit-field directly in union")
                algn = max(algn, self.align(f["t"]))
                s = self.size(f["t"])
                size = None if (size is None or s is None) else max(size, s)
                offs.append(f.get("offset") or 0)  # explicit member offsets exist through the API only
                units.append(None)
            if self.al(st) and size is not None:
                size += -size % algn
            lay = {"offs": offs, "size": size, "align": algn, "units": units}
            self._lay[key] = lay
            return lay
        off = 0
        unit_type = None
        unit_left = 0
        unit_id = -1
        for f in fields:
            a = self.align(f["t"])
            algn = max(algn, a)
            if f.get("bits"):
                base = self.storage(f["t"])
                bsz = SCALARS[base][1]
                if bsz is None or SCALARS[base][0] not in ("int", "char"):
                    raise DefinitionError("bit-field storage must be a fixed-size integer")
                if unit_type != base or unit_left == 0:
                    if off is not None and self.al(st):
                        off += -off % a
                    unit_type, unit_left = base, bsz * 8
                    unit_id += 1
                    unit_off = off
                    if off is not None:
                        off += bsz
                if f["bits"] > unit_left:
                    raise DefinitionError("straddled bit-field")
                offs.append(unit_off)
                units.append((unit_id, bsz * 8 - unit_left))
                unit_left -= f["bits"]
                continue
            unit_type, unit_left = None, 0
            units.append(None)
            if off is not None and self.al(st):
                off += -off % a
            offs.append(off)
            if off is not None:
                s = self.size(f["t"])
                off = None if s is None else off + s
        if off is not None and self.al(st):
            off += -off % algn
        lay = {"offs": offs, "size": off, "align": algn, "units": units}
        self._lay[key] = lay
        return lay

    # ------------------------------------------------------------ defaults
    def default(self, t):
        t = self.res(t)
        k = t["k"]
        if k == "s":
            c = SCALARS[t["n"]][0]
            return {"int": 0, "leb": 0, "float": 0.0, "char": b"\x00", "wchar": "\x00", "void": None}[c]
        if k in ("e", "p"):
            return 0
        if k == "a":
            n = t["len"][1] if t["len"][0] == "fixed" else 0
            et = self.res(t["t"])
            if et["k"] == "s" and et["n"] == "char":
                return b"\x00" * n
            if et["k"] == "s" and et["n"] == "wchar":
                return "\x00" * n
            return [self.default(t["t"]) for _ in range(n)]
        if k == "st":
            return {fkey(f, i): self.default(f["t"]) for i, f in enumerate(t["fields"])}
        raise ValueError(k)

    # ------------------------------------------------------------ decode
    def decode(self, t, buf, pos=0, mask=None, ctx=None):
        """-> (value, new position). mask: bytearray of len(buf) receiving 1-bits for data-carrying bits."""
        t = self.res(t)
        k = t["k"]
        if k == "s":
            return self._dec_scalar(t["n"], buf, pos, mask)
        if k == "e":
            v, p = self._dec_scalar(self.enumdef(t)["base"], buf, pos, mask)
            if self.enum_leaves is not None:
                self.enum_leaves.append((pos, p, self.enumdef(t), v))
            return v, p
        if k == "p":
            v, p = self._dec_scalar(self.ptr, buf, pos, mask)
            return v, p
        if k == "a":
            return self._dec_array(t, buf, pos, mask, ctx)
        if k == "st":
            if t["kind"] == "union":
                return self._dec_union(t, buf, pos, mask)
            return self._dec_struct(t, buf, pos, mask)
        raise ValueError(k)

    def _take(self, buf, pos, n, mask):
        if n == 0:
            return b""  # nothing is needed (a zero-length member behind padding that lies beyond the input)
        if pos + n > len(buf):
            raise Short(max(pos, len(buf)))
        if mask is not None:
            for i in range(pos, pos + n):
                mask[i] = 0xFF
        return buf[pos : pos + n]

    def _dec_scalar(self, name, buf, pos, mask):
        c, size, _, info = SCALARS[name]
        if c == "int":
            b = self._take(buf, pos, size, mask)
            return int.from_bytes(b, self.endian, signed=info), pos + size
        if c == "float":
            b = self._take(buf, pos, size, mask)
            v = _struct.unpack(self.echar + info, b)[0]
            return v, pos + size
        if c == "char":
            return bytes(self._take(buf, pos, 1, mask)), pos + 1
        if c == "wchar":
            b = self._take(buf, pos, 2, mask)
            return self._utf16(b), pos + 2
        if c == "void":
            return None, pos
        if c == "leb":
            result = 0
            shift = 0
            start = pos
            while True:
                b = self._take(buf, pos, 1, mask)[0]
                pos += 1
                result |= (b & 0x7F) << shift
                shift += 7
                if not b & 0x80:
                    break
            if info and b & 0x40:
                result -= 1 << shift
            if self.enc_leb(result, info) != bytes(buf[start:pos]):
                raise NonCanonical("non-minimal LEB128")
            return result, pos
        raise ValueError(name)

    def _utf16(self, b):
        try:
            return bytes(b).decode("utf-16-le" if self.endian == "little" else "utf-16-be")
        except UnicodeDecodeError as e:
            raise NonCanonical("invalid UTF-16") from e

    def _count(self, t, ctx):
        ln = t["len"]
        if ln[0] == "fixed":
            return max(0, ln[1])
        if ln[0] == "expr":
            env = {k: v for k, v in (ctx or {}).items() if isinstance(v, int) and not isinstance(v, bool)}
            return max(0, exprref.evaluate(ln[2], env, self.consts))
        return None

    def _is_zero(self, t, v):
        t = self.res(t)
        if t["k"] == "st":
            return not any(self._truthy(self.res(f["t"]), v[fkey(f, i)]) for i, f in enumerate(t["fields"]))
        return not self._truthy(t, v)

    def _truthy(self, t, v):
        if t["k"] == "st":
            return not self._is_zero(t, v)
        if v is None:
            return False
        return bool(v)

    def _dec_array(self, t, buf, pos, mask, ctx):
        et = self.res(t["t"])
        ischar = et["k"] == "s" and et["n"] == "char"
        iswchar = et["k"] == "s" and et["n"] == "wchar"
        form = t["len"][0]
        if form in ("fixed", "expr"):
            n = self._count(t, ctx)
            if n > 1_000_000 and not ischar and not iswchar and not self.size(et):
                raise Unsupported("astronomic count of zero-size or variable-size elements")
            if ischar:
                return bytes(self._take(buf, pos, n, mask)), pos + n
            if iswchar:
                return self._utf16(self._take(buf, pos, 2 * n, mask)), pos + 2 * n
            out = []
            for _ in range(n):
                v, pos = self.decode(et, buf, pos, mask, ctx)
                out.append(v)
            return out, pos
        if form == "null":
            if ischar:
                start = pos
                while True:
                    b = self._take(buf, pos, 1, mask)
                    pos += 1
                    if b == b"\x00":
                        return bytes(buf[start : pos - 1]), pos
            if iswchar:
                start = pos
                while True:
                    b = self._take(buf, pos, 2, mask)
                    pos += 2
                    if bytes(b) == b"\x00\x00":
                        return self._utf16(buf[start : pos - 2]), pos
            out = []
            while True:
                v, pos = self.decode(et, buf, pos, mask, ctx)
                if self._is_zero(et, v):
                    return out, pos
                out.append(v)
        if form == "eof":
            if ischar:
                n = len(buf) - pos
                return bytes(self._take(buf, pos, n, mask)), len(buf)
            if iswchar:
                if (len(buf) - pos) % 2:
                    raise RaggedEOF()
                n = (len(buf) - pos) // 2 * 2
                return self._utf16(self._take(buf, pos, n, mask)), pos + n
            es = self.size(et)
            if es and (len(buf) - pos) % es:
                raise RaggedEOF()
            out = []
            while pos < len(buf):
                v, pos = self.decode(et, buf, pos, mask, ctx)  # a ragged tail raises Short: see DESIGN §3.5
                out.append(v)
            return out, pos
        raise ValueError(form)

    def _dec_struct(self, st, buf, pos, mask):
        lay = self.layout(st)
        start = pos
        cur = pos
        res = {}
        unit = None  # (storage, value, bits_left, unit_pos, unit_bits)
        dyn = False
        for i, f in enumerate(st["fields"]):
            key = fkey(f, i)
            if f.get("bits"):
                base = self.storage(f["t"])
                bsz = SCALARS[base][1]
                if unit is None or unit[0] != base or unit[2] == 0:
                    off = lay["offs"][i]
                    if off is not None and not dyn:
                        cur = start + off
                    elif self.al(st):
                        cur += -cur % self.align(f["t"])
                    raw = self._take(buf, cur, bsz, None)
                    unit = [base, int.from_bytes(raw, self.endian), bsz * 8, cur, bsz * 8]
                    cur += bsz
                w = f["bits"]
                if w > unit[2]:
                    raise DefinitionError("straddled bit-field")
                used = unit[4] - unit[2]
                lo = used if self.endian == "little" else unit[4] - used - w
                v = (unit[1] >> lo) & ((1 << w) - 1)
                if mask is not None:
                    self._mark_bits(mask, unit[3], unit[4] // 8, lo, w)
                unit[2] -= w
                res[key] = v
                continue
            unit = None
            off = lay["offs"][i]
            if off is not None and not dyn:
                cur = start + off
            elif self.al(st):
                cur += -cur % self.align(f["t"])
            v, cur = self.decode(f["t"], buf, cur, mask, res)
            if self.size(f["t"]) is None:
                dyn = True
            res[key] = v
        if self.al(st):
            if lay["size"] is not None:
                cur = start + lay["size"]
            else:
                cur += -cur % lay["align"]
        return res, cur

    def _mark_bits(self, mask, unit_pos, nbytes, lo, w):
        for j in range(lo, lo + w):
            byte = j // 8 if self.endian == "little" else nbytes - 1 - j // 8
            mask[unit_pos + byte] |= 1 << (j % 8)

    def _dec_union(self, u, buf, pos, mask):
        lay = self.layout(u)
        if lay["size"] is None:
            raise Unsupported("dynamic union")
        if pos + lay["size"] > len(buf):
            # a fixed-size union reads its whole extent; which byte is data-carrying is decided by the members
            pass
        res = {}
        if self.union_spans is not None:
            self.union_spans.append((pos, pos + lay["size"], u))
        for i, f in enumerate(u["fields"]):
            v, _ = self.decode(f["t"], buf, pos + lay["offs"][i], mask, None)
            res[fkey(f, i)] = v
        return res, pos + lay["size"]

    def union_written_member(self, u):
        """Index of the member the library's union writer serialises: the first largest member, named members
        (anything but an anonymous inline struct) preferred."""
        idx = sorted(range(len(u["fields"])), key=lambda i: -(self.size(u["fields"][i]["t"]) or 0))
        skipped = None
        for i in idx:
            f = u["fields"][i]
            if f.get("name") is None and self.res(f["t"])["k"] == "st":
                skipped = i  # the writer remembers the LAST anonymous struct it passed over
                continue
            if (self.size(f["t"]) or 0) == 0 and skipped is not None:
                return skipped  # the named member wrote nothing: the writer falls back to the anonymous struct
            return i
        return idx[-1]  # only anonymous structs: the writer ends up with the last (smallest) one it skipped

    # ------------------------------------------------------------ encode
    def enc_leb(self, v, signed):
        out = bytearray()
        if not signed and v < 0:
            raise ValueError("negative unsigned LEB128")
        while True:
            byte = v & 0x7F
            v >>= 7
            done = (v == 0 and not byte & 0x40) or (v == -1 and byte & 0x40) if signed else v == 0
            if done:
                out.append(byte)
                return bytes(out)
            out.append(byte | 0x80)

    def enc_scalar(self, name, v):
        c, size, _, info = SCALARS[name]
        if c == "int":
            return int(v).to_bytes(size, self.endian, signed=info)
        if c == "float":
            return _struct.pack(self.echar + info, v)
        if c == "char":
            return bytes(v)
        if c == "wchar":
            return v.encode("utf-16-le" if self.endian == "little" else "utf-16-be")
        if c == "void":
            return b""
        if c == "leb":
            return self.enc_leb(v, info)
        raise ValueError(name)

    def encode(self, t, v, out=None, start=0):
        """Appends to out (bytearray); `start` = absolute position of out[0] is always 0 here (top-level at 0)."""
        out = bytearray() if out is None else out
        t = self.res(t)
        k = t["k"]
        if k == "s":
            out += self.enc_scalar(t["n"], v)
        elif k == "e":
            out += self.enc_scalar(self.enumdef(t)["base"], v)
        elif k == "p":
            out += self.enc_scalar(self.ptr, v)
        elif k == "a":
            et = self.res(t["t"])
            ischar = et["k"] == "s" and et["n"] in ("char", "wchar")
            if ischar:
                out += self.enc_scalar(et["n"], v)
                if t["len"][0] == "null":
                    out += self.enc_scalar(et["n"], b"\x00" if et["n"] == "char" else "\x00")
            else:
                for e in v:
                    self.encode(et, e, out)
                if t["len"][0] == "null":
                    self.encode(et, self.default(et), out)
        elif k == "st":
            if t["kind"] == "union":
                self._enc_union(t, v, out)
            else:
                self._enc_struct(t, v, out)
        return out

    def _pad_to(self, out, pos):
        if len(out) < pos:
            out += b"\x00" * (pos - len(out))

    def _enc_struct(self, st, v, out):
        lay = self.layout(st)
        start = len(out)
        unit = None  # [storage, value, bits_left, nbits]
        dyn = False

        def flush():
            nonlocal unit
            if unit is not None:
                out.extend(unit[1].to_bytes(unit[3] // 8, self.endian))
                unit = None

        for i, f in enumerate(st["fields"]):
            val = v[fkey(f, i)]
            if f.get("bits"):
                base = self.storage(f["t"])
                bsz = SCALARS[base][1]
                if unit is None or unit[0] != base or unit[2] == 0:
                    flush()
                    off = lay["offs"][i]
                    if off is not None and not dyn:
                        self._pad_to(out, start + off)
                    elif self.al(st):
                        self._pad_to(out, len(out) + (-len(out) % self.align(f["t"])))
                    unit = [base, 0, bsz * 8, bsz * 8]
                w = f["bits"]
                used = unit[3] - unit[2]
                lo = used if self.endian == "little" else unit[3] - used - w
                unit[1] |= (int(val) & ((1 << w) - 1)) << lo
                unit[2] -= w
                continue
            flush()
            off = lay["offs"][i]
            if off is not None and not dyn:
                self._pad_to(out, start + off)
            elif self.al(st):
                self._pad_to(out, len(out) + (-len(out) % self.align(f["t"])))
            self.encode(f["t"], val, out)
            if self.size(f["t"]) is None:
                dyn = True
        flush()
        if self.al(st):
            if lay["size"] is not None:
                self._pad_to(out, start + lay["size"])
            else:
                self._pad_to(out, len(out) + (-len(out) % lay["align"]))

    def _enc_union(self, u, v, out):
        """Encode through the first member (all members are views of the same bytes; the caller supplies a coherent value)."""
        lay = self.layout(u)
        if lay["size"] is None:
            raise Unsupported("dynamic union")
        start = len(out)
        buf = bytearray(lay["size"])
        if self.union_write == "largest":
            wi = self.union_written_member(u)
            f = u["fields"][wi]
            b = self.encode(f["t"], v[fkey(f, wi)], bytearray())
            buf[: len(b)] = b  # the library's writer ignores the member's offset
            out += buf[: lay["size"]]
            return
        # overlay members largest-last so that every member's data bytes are present
        order = sorted(range(len(u["fields"])), key=lambda i: self.size(u["fields"][i]["t"]) or 0)
        for i in order:
            f = u["fields"][i]
            b = self.encode(f["t"], v[fkey(f, i)], bytearray())
            m = bytearray(len(b))
            try:
                self.decode(f["t"], bytes(b), 0, m, None)
            except (Short, NonCanonical):
                m = bytearray(b"\xff" * len(b))
            o_ = lay["offs"][i]
            for j in range(len(b)):
                if o_ + j < len(buf):
                    buf[o_ + j] = (buf[o_ + j] & ~m[j] & 0xFF) | (b[j] & m[j])
        out += buf
        assert len(out) == start + lay["size"]


def fkey(f, i):
    return f["name"] if f.get("name") else f"#{i}"


# ---------------------------------------------------------------- value comparison helpers

def canon(v):
    """Canonical comparable form: floats by bit pattern with all NaNs collapsed."""
    if isinstance(v, bool):
        return int(v)
    if isinstance(v, float):
        if v != v:
            return ("f", "nan")
        return ("f", _struct.pack("<d", v).hex())
    if isinstance(v, dict):
        return {k: canon(x) for k, x in v.items()}
    if isinstance(v, (list, tuple)):
        return [canon(x) for x in v]
    if isinstance(v, (bytes, bytearray)):
        return bytes(v)
    return v


def has_nan(v):
    if isinstance(v, float):
        return v != v
    if isinstance(v, dict):
        return any(has_nan(x) for x in v.values())
    if isinstance(v, list):
        return any(has_nan(x) for x in v)
    return False
