"""Deterministic, harness-owned thread schedules at source-line granularity (C15).

Real threads are used, but only the holder of the baton runs. A sys.settrace line tracer, active in frames of the
code under test (dissect/cstruct/*, generated readers "<compiled ...>", generated methods "<string>"), counts every
executed source line (or, with opcodes=True, every executed bytecode instruction) globally; a schedule is a map {global line step -> thread to switch to}. Without preemptions the
threads run one after the other (0, then 1, ...); a finished thread hands the baton to the lowest unfinished one.
"""
from __future__ import annotations

import sys
import threading


def _traced(filename: str) -> bool:
    return "/dissect/cstruct/" in filename or filename.startswith("<compiled") or filename == "<string>"


class Stuck(Exception):
    pass


class InstructionMonitor:
    """sys.monitoring INSTRUCTION events for the code objects of the code under test (one schedule point before every
    bytecode instruction). sys.settrace with f_trace_opcodes is not usable here: every sys.settrace() call of a further
    thread re-instruments code while another thread is parked inside a callback, which crashes CPython 3.12.1. The local
    events are installed once per case, while no scheduled thread exists, and removed afterwards."""

    TOOL = 4
    threads = {}  # thread ident -> (scheduler, thread index)
    _codes = []

    @classmethod
    def _dispatch(cls, code, offset):
        ent = cls.threads.get(threading.get_ident())
        if ent is not None:
            ent[0]._point(ent[1], None, code, offset)

    @classmethod
    def install(cls):
        import gc
        import types

        mon = sys.monitoring
        cls.uninstall()
        mon.use_tool_id(cls.TOOL, "verif-sched")
        mon.register_callback(cls.TOOL, mon.events.INSTRUCTION, cls._dispatch)
        seen = set()

        def walk(co):
            if id(co) in seen:
                return
            seen.add(id(co))
            if _traced(co.co_filename):
                cls._codes.append(co)
            for c in co.co_consts:
                if isinstance(c, types.CodeType):
                    walk(c)

        for o in gc.get_objects():
            if isinstance(o, types.FunctionType):
                walk(o.__code__)
        for co in cls._codes:
            mon.set_local_events(cls.TOOL, co, mon.events.INSTRUCTION)
        return len(cls._codes)

    @classmethod
    def uninstall(cls):
        mon = sys.monitoring
        if mon.get_tool(cls.TOOL) is None:
            return
        for co in cls._codes:
            mon.set_local_events(cls.TOOL, co, 0)
        cls._codes = []
        mon.register_callback(cls.TOOL, mon.events.INSTRUCTION, None)
        mon.free_tool_id(cls.TOOL)


class Scheduler:
    def __init__(self, n, preempt=None, record=False, opcodes=False):
        self.n = n
        self.opcodes = opcodes  # True: a schedule point before every bytecode instruction instead of every source line
        self.preempt = dict(preempt or {})
        self.sems = [threading.Semaphore(0) for _ in range(n)]
        self._ready = threading.Semaphore(0)
        self.alive = [True] * n
        self.step = 0
        self.switches = []  # (step, from, to, "file:line")
        self.results = [None] * n
        self.record = record
        self.steps_of = [0] * n
        self.trace = []  # when recording: (global step, thread, "file:function")

    def _point(self, idx, frame, code=None, offset=None):
        self.step += 1
        self.steps_of[idx] += 1
        code = code if code is not None else frame.f_code
        if self.record:
            self.trace.append((self.step, idx, f"{code.co_filename.rsplit('/', 1)[-1]}:{code.co_name}"))
        tgt = self.preempt.get(self.step)
        if tgt is not None and tgt != idx and self.alive[tgt]:
            where = f"{frame.f_lineno}" if frame is not None else f"{code.co_name}+{offset}"
            self.switches.append((self.step, idx, tgt, f"{code.co_filename.rsplit('/', 1)[-1]}:{where}"))
            self.sems[tgt].release()
            self.sems[idx].acquire()

    def _tracer(self, idx):
        def local(frame, event, arg):
            if event == "line":
                self._point(idx, frame)
            return local

        def glob(frame, event, arg):
            if event == "call" and _traced(frame.f_code.co_filename):
                return local
            return None

        return glob

    def _body(self, idx, thunk):
        if self.opcodes:
            # instruction granularity: the events come from sys.monitoring (InstructionMonitor, installed by the caller for
            # the code objects of the code under test); this thread only has to be known to the dispatcher
            InstructionMonitor.threads[threading.get_ident()] = (self, idx)
        self._ready.release()
        self.sems[idx].acquire()
        if not self.opcodes:
            sys.settrace(self._tracer(idx))
        try:
            self.results[idx] = ("ok", thunk())
        except BaseException as e:  # noqa: BLE001 - the outcome of the thread, judged by the oracle
            self.results[idx] = ("exc", type(e).__name__, str(e)[:160])
        finally:
            sys.settrace(None)
            InstructionMonitor.threads.pop(threading.get_ident(), None)
            self.alive[idx] = False
            nxt = next((j for j in range(self.n) if self.alive[j]), None)
            if nxt is not None:
                self.sems[nxt].release()

    def run(self, thunks, timeout=20.0):
        threads = [threading.Thread(target=self._body, args=(i, t), daemon=True) for i, t in enumerate(thunks)]
        for t in threads:
            t.start()
        for _ in threads:
            if not self._ready.acquire(timeout=timeout):
                raise Stuck("a scheduled thread did not start (harness error)")
        self.sems[0].release()
        for t in threads:
            t.join(timeout)
            if t.is_alive():
                raise Stuck("a scheduled thread did not finish (harness error)")
        return self.results
