"""Deterministic, harness-owned thread schedules at source-line granularity (C15).

Real threads are used, but only the holder of the baton runs. A sys.settrace line tracer, active in frames of the
code under test (dissect/cstruct/*, generated readers "<compiled ...>", generated methods "<string>"), counts every
executed source line globally; a schedule is a map {global line step -> thread to switch to}. Without preemptions the
threads run one after the other (0, then 1, ...); a finished thread hands the baton to the lowest unfinished one.
"""
from __future__ import annotations

import sys
import threading


def _traced(filename: str) -> bool:
    return "/dissect/cstruct/" in filename or filename.startswith("<compiled") or filename == "<string>"


class Stuck(Exception):
    pass


class Scheduler:
    def __init__(self, n, preempt=None, record=False):
        self.n = n
        self.preempt = dict(preempt or {})
        self.sems = [threading.Semaphore(0) for _ in range(n)]
        self.alive = [True] * n
        self.step = 0
        self.switches = []  # (step, from, to, "file:line")
        self.results = [None] * n
        self.record = record
        self.steps_of = [0] * n
        self.trace = []  # when recording: (global step, thread, "file:function")

    def _point(self, idx, frame):
        self.step += 1
        self.steps_of[idx] += 1
        if self.record:
            self.trace.append((self.step, idx, f"{frame.f_code.co_filename.rsplit('/', 1)[-1]}:{frame.f_code.co_name}"))
        tgt = self.preempt.get(self.step)
        if tgt is not None and tgt != idx and self.alive[tgt]:
            self.switches.append((self.step, idx, tgt, f"{frame.f_code.co_filename.rsplit('/', 1)[-1]}:{frame.f_lineno}"))
            self.sems[tgt].release()
            self.sems[idx].acquire()

    def _tracer(self, idx):
        def local(frame, event, arg):
            if event == "line":
                self._point(idx, frame)
            return local

        def glob(frame, event, arg):
            if event == "call" and _traced(frame.f_code.co_filename):
                return local
            return None

        return glob

    def _body(self, idx, thunk):
        self.sems[idx].acquire()
        sys.settrace(self._tracer(idx))
        try:
            self.results[idx] = ("ok", thunk())
        except BaseException as e:  # noqa: BLE001 - the outcome of the thread, judged by the oracle
            self.results[idx] = ("exc", type(e).__name__, str(e)[:160])
        finally:
            sys.settrace(None)
            self.alive[idx] = False
            nxt = next((j for j in range(self.n) if self.alive[j]), None)
            if nxt is not None:
                self.sems[nxt].release()

    def run(self, thunks, timeout=20.0):
        threads = [threading.Thread(target=self._body, args=(i, t), daemon=True) for i, t in enumerate(thunks)]
        for t in threads:
            t.start()
        self.sems[0].release()
        for t in threads:
            t.join(timeout)
            if t.is_alive():
                raise Stuck("a scheduled thread did not finish (harness error)")
        return self.results
