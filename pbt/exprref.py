"""Independent reference for the expression language (property C10). Never imports dissect.

AST (JSON-able):
  ["lit", value, text]        integer literal with its source spelling
  ["id", name]
  ["sizeof", typename]
  ["un", op, child]           op in "-", "~"
  ["bin", op, left, right]
  ["par", child]              redundant parentheses
"""
from __future__ import annotations

import re

BIN_PREC = {"|": 0, "^": 1, "&": 2, "<<": 3, ">>": 3, "+": 4, "-": 4, "*": 5, "/": 5, "%": 5}
BIN_OPS = list(BIN_PREC)
UN_OPS = ["-", "~"]
MAX_SHIFT = 128

SIZEOF_TYPES = {
    "uint8": 1, "int8": 1, "uint16": 2, "int16": 2, "uint32": 4, "int32": 4, "uint64": 8, "int64": 8,
    "char": 1, "wchar": 2, "int24": 3, "uint24": 3, "uint48": 6, "int128": 16, "uint128": 16,
    "float": 4, "double": 8, "float16": 2, "DWORD": 4, "QWORD": 8, "BYTE": 1, "WORD": 2, "uint64_t": 8,
}


class OutOfDomain(Exception):
    """Operands for which C prescribes no value (or that the property excludes): / % on negatives, zero
    divisor, shift count outside [0, MAX_SHIFT]."""


class Unbound(Exception):
    pass


class NotWellFormed(Exception):
    pass


def apply_bin(op, a, b):
    if op in ("/", "%"):
        if a < 0 or b <= 0:
            raise OutOfDomain(op)
        return a // b if op == "/" else a % b
    if op in ("<<", ">>"):
        if b < 0 or b > MAX_SHIFT:
            raise OutOfDomain(op)
        return a << b if op == "<<" else a >> b
    if op == "+":
        return a + b
    if op == "-":
        return a - b
    if op == "*":
        return a * b
    if op == "&":
        return a & b
    if op == "^":
        return a ^ b
    if op == "|":
        return a | b
    raise ValueError(op)


def evaluate(ast, context, consts):
    k = ast[0]
    if k == "lit":
        return ast[1]
    if k == "id":
        n = ast[1]
        if n in context:
            return int(context[n])
        if n in consts:
            return int(consts[n])
        raise Unbound(n)
    if k == "sizeof":
        return SIZEOF_TYPES[ast[1]]
    if k == "par":
        return evaluate(ast[1], context, consts)
    if k == "un":
        v = evaluate(ast[2], context, consts)
        return -v if ast[1] == "-" else ~v
    if k == "bin":
        a = evaluate(ast[2], context, consts)
        b = evaluate(ast[3], context, consts)
        return apply_bin(ast[1], a, b)
    raise ValueError(k)


# ---------------------------------------------------------------- rendering

def _needs_space(prev, nxt):
    # never glue two '-' (C would read '--'), nor two identifier/number characters
    if prev.endswith("-") and nxt.startswith("-"):
        return True
    return bool(prev) and bool(nxt) and (prev[-1].isalnum() or prev[-1] == "_") and (nxt[0].isalnum() or nxt[0] == "_")


def tokens_of(ast):
    """Token list with minimal parentheses derived from the independent precedence table."""
    k = ast[0]
    if k == "lit":
        return [ast[2]]
    if k == "id":
        return [ast[1]]
    if k == "sizeof":
        return ["sizeof", "(", ast[1], ")"]
    if k == "par":
        return ["(", *tokens_of(ast[1]), ")"]
    if k == "un":
        c = ast[2]
        inner = tokens_of(c)
        if c[0] == "bin":
            inner = ["(", *inner, ")"]
        return [ast[1], *inner]
    if k == "bin":
        p = BIN_PREC[ast[1]]
        l, r = ast[2], ast[3]
        lt, rt = tokens_of(l), tokens_of(r)
        if l[0] == "bin" and BIN_PREC[l[1]] < p:
            lt = ["(", *lt, ")"]
        if r[0] == "bin" and BIN_PREC[r[1]] <= p:
            rt = ["(", *rt, ")"]
        return [*lt, ast[1], *rt]
    raise ValueError(k)


def join_tokens(tokens, gaps=None):
    """gaps: iterable of whitespace strings used between tokens ('' allowed where safe)."""
    out = ""
    gi = iter(gaps or [])
    prev = ""
    for t in tokens:
        g = next(gi, " ")
        if prev and not g and _needs_space(prev, t):
            g = " "
        out += (g if prev else "") + t
        prev = t
    return out


# ---------------------------------------------------------------- independent parser (precedence climbing)

_TOKEN = re.compile(
    r"\s*(?:(?P<num>0[xX][0-9a-fA-F]+|0[bB][01]+|0[0-7]*|[1-9][0-9]*)(?P<suf>[uU][lL]{0,2}|[lL]{1,2}[uU]?)?(?![0-9A-Za-z_])"
    r"|(?P<id>[A-Za-z_][A-Za-z0-9_]*)|(?P<op><<|>>|[-+*/%&^|~()]))"
)


def tokenize(text):
    pos = 0
    toks = []
    text = text.rstrip(" \t")
    while pos < len(text):
        m = _TOKEN.match(text, pos)
        if not m or m.end() == pos:
            raise NotWellFormed(f"bad token at {pos}")
        if m.group("num") is not None:
            s = m.group("num")
            if s[:2] in ("0x", "0X"):
                v = int(s[2:], 16)
            elif s[:2] in ("0b", "0B"):
                v = int(s[2:], 2)
            elif len(s) > 1 and s[0] == "0":
                v = int(s[1:], 8)
            else:
                v = int(s, 10)
            toks.append(("num", v, m.group(0).strip()))
        elif m.group("id") is not None:
            toks.append(("id", m.group("id")))
        else:
            toks.append(("op", m.group("op")))
        pos = m.end()
    return toks


class _P:
    def __init__(self, toks):
        self.t = toks
        self.i = 0

    def peek(self):
        return self.t[self.i] if self.i < len(self.t) else None

    def take(self):
        tok = self.peek()
        if tok is None:
            raise NotWellFormed("unexpected end")
        self.i += 1
        return tok

    def expr(self, minp=0):
        left = self.unary()
        while True:
            tok = self.peek()
            if tok is None or tok[0] != "op" or tok[1] not in BIN_PREC or BIN_PREC[tok[1]] < minp:
                return left
            op = self.take()[1]
            right = self.expr(BIN_PREC[op] + 1)
            left = ["bin", op, left, right]

    def unary(self):
        tok = self.peek()
        if tok and tok[0] == "op" and tok[1] in ("-", "~"):
            self.take()
            return ["un", tok[1], self.unary()]
        return self.primary()

    def primary(self):
        tok = self.take()
        if tok[0] == "num":
            return ["lit", tok[1], tok[2]]
        if tok[0] == "id":
            if tok[1] == "sizeof":
                if self.take() != ("op", "("):
                    raise NotWellFormed("sizeof (")
                name = self.take()
                if name[0] != "id":
                    raise NotWellFormed("sizeof name")
                if self.take() != ("op", ")"):
                    raise NotWellFormed("sizeof )")
                return ["sizeof", name[1]]
            return ["id", tok[1]]
        if tok == ("op", "("):
            e = self.expr(0)
            if self.take() != ("op", ")"):
                raise NotWellFormed(") expected")
            return ["par", e]
        raise NotWellFormed(f"unexpected {tok}")


def parse(text):
    p = _P(tokenize(text))
    if not p.t:
        raise NotWellFormed("empty")
    e = p.expr(0)
    if p.peek() is not None:
        raise NotWellFormed("trailing tokens")
    return e


def strip_par(ast):
    k = ast[0]
    if k == "par":
        return strip_par(ast[1])
    if k == "un":
        return ["un", ast[1], strip_par(ast[2])]
    if k == "bin":
        return ["bin", ast[1], strip_par(ast[2]), strip_par(ast[3])]
    if k == "lit":
        return ["lit", ast[1]]
    return list(ast)


def features(ast, acc=None, parent=None):
    """Structural facts used for the non-triviality rule."""
    acc = acc if acc is not None else {"bin": 0, "un": 0, "precs": set(), "un_after_bin": False, "ids": set(), "sizeof": 0}
    k = ast[0]
    if k == "bin":
        acc["bin"] += 1
        acc["precs"].add(BIN_PREC[ast[1]])
        features(ast[2], acc, "binl")
        features(ast[3], acc, "binr")
    elif k == "un":
        acc["un"] += 1
        if parent == "binr":
            acc["un_after_bin"] = True
        features(ast[2], acc, "un")
    elif k == "par":
        features(ast[1], acc, "par")
    elif k == "id":
        acc["ids"].add(ast[1])
    elif k == "sizeof":
        acc["sizeof"] += 1
    return acc
