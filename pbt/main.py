from __future__ import annotations

import argparse
import importlib
import os
import sys
import traceback

HERE = os.path.dirname(os.path.abspath(__file__))
VERIF = os.path.dirname(HERE)
sys.path.insert(0, VERIF)
deps = os.path.join(VERIF, ".deps")
if os.path.isdir(deps):
    sys.path.append(deps)


def main():
    ap = argparse.ArgumentParser()
    ap.add_argument("prop")
    ap.add_argument("--tier", default=os.environ.get("VERIF_TIER", "quick"), choices=["quick", "thorough"])
    ap.add_argument("--replay", default=None)
    ap.add_argument("--seed", type=int, default=None)
    a = ap.parse_args()
    seed = a.seed if a.seed is not None else int(os.environ.get("VERIF_SEED", "1") or "1")
    os.chdir(VERIF)
    from pbt import drive

    try:
        prop = importlib.import_module(f"props.{a.prop.lower()}")
        rc = drive.run_check(prop, a.tier, seed, replay=a.replay)
    except drive.HarnessError as e:
        print(f"HARNESS ERROR: {e}", file=sys.stderr)
        rc = 2
    except Exception:  # noqa: BLE001
        traceback.print_exc()
        rc = 2
    sys.stdout.flush()
    sys.exit(rc)


if __name__ == "__main__":
    main()
