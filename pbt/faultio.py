"""Fault-injecting and minimal file-like streams (C08, C09). No dependency on the library."""
from __future__ import annotations

import io


class FaultyStream:
    """A seekable binary stream over `data` whose `fault_at`-th read call misbehaves.

    fault kinds: "short" (delivers only `keep` of the requested bytes and advances by that much), "empty" (delivers
    b""), "raise" (raises OSError). Every read call is recorded as (position, requested, delivered).
    """

    def __init__(self, data, fault_at=None, kind=None, keep=0, pos=0):
        self._b = io.BytesIO(data)
        self._b.seek(pos)
        self.fault_at = fault_at
        self.kind = kind
        self.keep = keep
        self.calls = []
        self.fault = None

    def read(self, n=-1):
        idx = len(self.calls)
        pos = self._b.tell()
        if self.fault_at is not None and idx == self.fault_at:
            if self.kind == "raise":
                self.calls.append((pos, n, None))
                self.fault = (pos, n, None)
                raise OSError("injected stream failure")
            avail = len(self._b.getvalue()) - pos
            req = avail if n is None or n < 0 else min(n, avail)
            keep = 0 if self.kind == "empty" else min(self.keep, max(req - 1, 0))
            out = self._b.read(keep)
            self.calls.append((pos, n, len(out)))
            self.fault = (pos, req, len(out))
            return out
        out = self._b.read(n)
        self.calls.append((pos, n, len(out)))
        return out

    def seek(self, off, whence=0):
        return self._b.seek(off, whence)

    def tell(self):
        return self._b.tell()


class MinimalStream:
    """Only read/seek/tell, nothing else (no readable(), no getvalue(), no readinto())."""

    def __init__(self, data, pos=0):
        self._data = bytes(data)
        self._pos = pos

    def read(self, n=-1):
        if n is None or n < 0:
            out = self._data[self._pos :]
        else:
            out = self._data[self._pos : self._pos + n]
        self._pos += len(out)
        return out

    def seek(self, off, whence=0):
        if whence == 0:
            self._pos = off
        elif whence == 1:
            self._pos += off
        else:
            self._pos = len(self._data) + off
        return self._pos

    def tell(self):
        return self._pos
