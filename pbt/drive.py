"""Shared driver: sharded Hypothesis runs, exhaustive enumeration, evidence, replay, known findings.

A property module (props/cNN.py) exposes:
    ID, RULE, ASSUMPTIONS, LEVEL (default "exploration")
    stages(tier) -> list of Stage
    run_case(case, ctx)                      -- pure function of the JSON-able case; raises Violation
    KNOWN_PREDICATES = {name: fn(case, violation) -> bool}      (optional)
Every case is a JSON-serialisable dict with a key "stage" naming the stage that produced it, so that a
replay file is self-contained: ./check <ID> --replay f.json re-runs run_case(case) and nothing else.
"""
from __future__ import annotations

import hashlib
import json
import multiprocessing
import os
import sys
import time
import traceback
from collections import Counter

VERIF = os.path.dirname(os.path.dirname(os.path.abspath(__file__)))
REPO = os.environ.get("VERIF_REPO", "/repo")


def import_repo():
    """Import dissect.cstruct from the tree under test and insist that it is that tree."""
    if REPO not in sys.path:
        sys.path.insert(0, REPO)
    import dissect.cstruct as m

    real = os.path.realpath(m.__file__)
    if not real.startswith(os.path.realpath(REPO) + os.sep):
        raise HarnessError(f"dissect.cstruct imported from {real}, not from {REPO}")
    return m


class HarnessError(Exception):
    pass


class Violation(Exception):
    """The oracle disagreed with the code under test."""

    def __init__(self, kind: str, detail: str = "", where: str = "", info=None):
        detail = detail if len(detail) <= 20000 else detail[:20000] + f" ... [{len(detail) - 20000} more characters]"
        super().__init__(f"{kind}: {detail}")
        self.kind = kind
        self.detail = detail
        self.where = where  # innermost library frame, when the symptom is an exception
        self.info = info or {}  # structured facts for known-finding predicates

    @property
    def signature(self) -> str:
        return f"{self.kind}@{self.where}" if self.where else self.kind


class Err:
    """Outcome of a library call that raised."""

    def __init__(self, exc: BaseException):
        self.exc = exc
        self.type = type(exc).__name__
        self.where = _innermost_lib_frame(exc)
        # the frames (and with them possibly very large half-built values of the code under test) are not kept alive
        exc.__traceback__ = None
        exc.__context__ = None

    def __repr__(self):
        return f"Err({self.type}: {str(self.exc)[:120]} @ {self.where})"


def _innermost_lib_frame(exc: BaseException) -> str:
    tb = exc.__traceback__
    where = ""
    while tb is not None:
        fn = tb.tb_frame.f_code.co_filename
        if "/dissect/cstruct/" in fn:
            where = f"{os.path.basename(fn)}:{tb.tb_frame.f_code.co_name}"
        elif fn.startswith("<compiled"):
            where = "compiled:_read"
        tb = tb.tb_next
    return where


def lib(fn, *a, **kw):
    """Call into the library; exceptions become an Err outcome for the oracle to judge (never a silent pass)."""
    try:
        return fn(*a, **kw)
    except HarnessError:
        raise
    except RecursionError as e:
        return Err(e)
    except Exception as e:  # noqa: BLE001 - the oracle decides what an exception means
        return Err(e)


def derive_seed(*parts) -> int:
    h = hashlib.sha256("|".join(str(p) for p in parts).encode()).digest()
    return int.from_bytes(h[:8], "big")


def case_hash(obj) -> int:
    return int.from_bytes(hashlib.sha1(json.dumps(obj, sort_keys=True, default=str).encode()).digest()[:8], "big")


class Ctx:
    """Per-worker accounting."""

    def __init__(self, max_samples=6):
        self.evaluations = 0
        self.nontrivial = set()
        self.counters = Counter()
        self.samples = []
        self.sample_classes = set()
        self.max_samples = max_samples
        self.known_hits = Counter()
        self.also_seen = Counter()

    def count(self, label, n=1):
        self.counters[label] += n

    NONTRIVIAL_CAP = 1_000_000  # per worker: beyond it non-trivial cases are counted, not hashed (memory bound)

    def mark_nontrivial(self, key_obj):
        if len(self.nontrivial) < self.NONTRIVIAL_CAP:
            self.nontrivial.add(case_hash(key_obj))
        else:
            self.counters["nontrivial:beyond-the-per-worker-hash-cap(counted, not deduplicated)"] += 1

    def sample(self, obj, cls=""):
        if cls in self.sample_classes and len(self.samples) >= 2:
            return
        if len(self.samples) < self.max_samples:
            self.sample_classes.add(cls)
            self.samples.append(obj)

    def export(self):
        return {
            "evaluations": self.evaluations,
            "nontrivial": self.nontrivial,
            "counters": self.counters,
            "samples": self.samples,
            "known_hits": self.known_hits,
            "also_seen": self.also_seen,
        }


class Stage:
    name = "stage"


class HypStage(Stage):
    """Sharded Hypothesis search. strategy() -> SearchStrategy producing JSON-able case dicts."""

    def __init__(self, name, strategy, examples, shards=8, thorough_shrink=True, stateful=None):
        self.name = name
        self.strategy = strategy
        self.examples = examples
        self.shards = shards
        self.thorough_shrink = thorough_shrink


class EnumStage(Stage):
    """Exhaustive enumeration. cases() -> iterator of case dicts (deterministic); sharded by index."""

    def __init__(self, name, cases, shards=16, exhaustive=True, scope=""):
        self.name = name
        self.cases = cases
        self.shards = shards
        self.exhaustive = exhaustive
        self.scope = scope


class FuncStage(Stage):
    """Custom stage: fn(ctx, shard, nshards, seed, tier) runs cases itself and raises Violation with .case set."""

    def __init__(self, name, fn, shards=1, exhaustive=False, scope=""):
        self.name = name
        self.fn = fn
        self.shards = shards
        self.exhaustive = exhaustive
        self.scope = scope


class _Known:
    def __init__(self, prop):
        self.prop = prop
        self.active = []  # (finding dict, predicate fn)
        self.lines = []

    def match(self, case, v):
        for f, pred in self.active:
            try:
                if pred(case, v):
                    return f["id"]
            except Exception:  # a predicate that cannot judge this case does not match
                continue
        return None


def load_known(prop):
    """Replay the reproducer of each listed finding; the ones that still reproduce become active predicates."""
    k = _Known(prop)
    path = os.path.join(VERIF, "known_findings.json")
    if not os.path.exists(path):
        return k
    with open(path) as fh:
        data = json.load(fh)
    preds = getattr(prop, "KNOWN_PREDICATES", {})
    for f0 in data.get("findings", []):
        # one root cause may surface under several properties: per-property predicate and reproducer
        per = f0.get("checks", {}).get(prop.ID)
        if per is None:
            continue
        f = dict(f0)
        f.update(per)
        pred = preds.get(f.get("predicate"))
        if pred is None:
            raise HarnessError(f"known finding {f.get('id')} names unknown predicate {f.get('predicate')}")
        with open(os.path.join(VERIF, f["reproducer"])) as fh:
            case = json.load(fh)["case"]
        try:
            prop.run_case(case, Ctx())
        except Violation as v:
            if pred(case, v):
                k.active.append((f, pred))
                k.lines.append(f"KNOWN-FINDING: property={prop.ID} {f['id']}: {f['description']}")
            # a reproducer that fails differently is not this finding; leave it to the search
        # reproducer passes: the defect is gone; predicate inactive, nothing printed
    return k


def _run_one(prop, known, ctx, case, state):
    """Run a case; returns None or raises Violation if it is the (first) unknown signature."""
    ctx.evaluations += 1
    crumb = os.environ.get("VERIF_BREADCRUMB")
    if crumb:  # crash isolation re-run: remember the case about to run, in case the interpreter dies in it
        with open(crumb, "w") as fh:
            json.dump(case, fh, default=str)
    state["current"] = case
    try:
        try:
            prop.run_case(case, ctx)
        except (Violation, HarnessError):
            raise
        except MemoryError:
            # the worker's address-space limit was hit while running / judging this case (a parse that returns or
            # allocates an absurdly large value): a finding about this case, not a harness error
            _open_headroom()
            raise Violation("memory-exhausted", "running this case exhausted the worker's memory limit (VERIF_WORKER_MEM_GB); a parse returned or tried to allocate an absurdly large value") from None
        except Exception as e:  # noqa: BLE001
            # an exception that left the code under test through a call the check did not wrap: when the innermost frame
            # is library code it is an outcome of the library (nothing in a check expects it: judged as a violation); an
            # exception raised by the check's own code stays a harness error
            tb = e.__traceback__
            last = None
            while tb is not None:
                last = tb.tb_frame.f_code.co_filename
                tb = tb.tb_next
            if last and ("/dissect/cstruct/" in last or last.startswith("<compiled")):
                where = _innermost_lib_frame(e)
                raise Violation("library-raised-unexpectedly", f"{type(e).__name__}: {str(e)[:300]} (raised inside the library, outside any call whose failure the check anticipates)", where, {"exc": type(e).__name__}) from None
            raise
    except Violation as v:
        kid = known.match(case, v)
        if kid is not None:
            ctx.known_hits[kid] += 1
            return
        sig = v.signature
        if v.kind == "memory-exhausted":
            state["target"] = sig
        if state.get("target") is None:
            state["target"] = sig
        if sig != state["target"]:
            ctx.also_seen[sig] += 1
            return
        # drop the frames of run_case (their locals may hold very large parsed values) before handing the exception on
        v.__traceback__ = None
        v.__context__ = None
        state["last"] = (case, v)
        raise v from None


def _limit_memory():
    """A runaway allocation inside a worker raises MemoryError (judged by the oracle) instead of taking the host down."""
    try:
        import resource

        lim = int(os.environ.get("VERIF_WORKER_MEM_GB", "8")) << 30
        # soft limit = the budget; the hard limit leaves headroom that is only opened to REPORT an exhaustion
        resource.setrlimit(resource.RLIMIT_AS, (lim, lim + (4 << 30)))
    except Exception:  # noqa: BLE001 - best effort
        pass


def _open_headroom():
    """After a MemoryError: raise the soft address-space limit to the hard one, so that the finding can be reported
    (pickled and sent to the parent) even if something large is still referenced."""
    try:
        import gc
        import resource

        gc.collect()
        soft, hard = resource.getrlimit(resource.RLIMIT_AS)
        if hard != resource.RLIM_INFINITY and soft != hard:
            resource.setrlimit(resource.RLIMIT_AS, (hard, hard))
    except Exception:  # noqa: BLE001 - best effort
        pass


def _worker(args):
    prop_name, stage_idx, shard, tier, seed, excluded = args
    try:
        import importlib

        prop = importlib.import_module(f"props.{prop_name}")
        import_repo()
        known = load_known(prop)
        stage = prop.stages(tier)[stage_idx]
        ctx = Ctx()
        state = {"target": None, "last": None}
        failure = None
        t0 = time.time()
        sseed = derive_seed(seed, prop.ID, stage.name, shard)
        shrink_for = None
        if excluded and excluded[0] == "shrink":
            # second pass of the quick tier: the same shard again (same seed, same examples), only the signature found
            # in the first pass counts, and Hypothesis shrinks it under a short wall-clock cap
            _, state["target"], shrink_for = excluded
        if isinstance(stage, HypStage):
            import hypothesis
            from hypothesis import HealthCheck, Phase, given, settings

            phases = [Phase.explicit, Phase.generate, Phase.target]
            if (tier == "thorough" and stage.thorough_shrink) or shrink_for:
                phases.append(Phase.shrink)
            if shrink_for:
                from hypothesis.internal.conjecture import engine as _engine

                _engine.MAX_SHRINKING_SECONDS = shrink_for
            st_ = settings(
                max_examples=stage.examples,
                deadline=None,
                database=None,
                derandomize=False,
                report_multiple_bugs=False,
                phases=phases,
                suppress_health_check=[HealthCheck.too_slow, HealthCheck.data_too_large, HealthCheck.large_base_example],
                print_blob=False,
            )

            @hypothesis.seed(sseed)
            @st_
            @given(stage.strategy())
            def test(case):
                case = dict(case)
                case["stage"] = stage.name
                _run_one(prop, known, ctx, case, state)

            try:
                test()
            except Violation:
                case, v = state["last"]
                failure = {"case": case, "kind": v.kind, "detail": v.detail, "signature": v.signature}
            except hypothesis.errors.FailedHealthCheck as e:
                return {"harness_error": f"health check: {e}"}
            except MemoryError:
                _open_headroom()
                if state.get("last") is not None:
                    case, v = state["last"]
                    failure = {"case": case, "kind": v.kind, "detail": v.detail[:4000], "signature": v.signature}
                elif state.get("current") is not None:
                    failure = {"case": state["current"], "kind": "memory-exhausted", "detail": "the worker's memory limit was exhausted while this case was running", "signature": "memory-exhausted"}
                else:
                    raise
            except hypothesis.errors.Flaky:
                # the case raised a Violation and behaved differently when Hypothesis ran it again (code under test that
                # misbehaves non-deterministically, e.g. a corrupted generated method): the violation that did occur counts
                if state.get("last") is None:
                    raise
                case, v = state["last"]
                failure = {"case": case, "kind": v.kind, "detail": "(not reproduced identically on re-execution) " + v.detail, "signature": v.signature}
        elif isinstance(stage, EnumStage):
            for i, case in enumerate(stage.cases()):
                if i % stage.shards != shard:
                    continue
                case["stage"] = stage.name
                try:
                    _run_one(prop, known, ctx, case, state)
                except Violation as v:
                    failure = {"case": case, "kind": v.kind, "detail": v.detail, "signature": v.signature}
                    break
        elif isinstance(stage, FuncStage):
            def runner(case):
                case["stage"] = stage.name
                _run_one(prop, known, ctx, case, state)

            try:
                stage.fn(runner, ctx, shard, stage.shards, sseed, tier)
            except Violation as v:
                case, v = state["last"]
                failure = {"case": case, "kind": v.kind, "detail": v.detail, "signature": v.signature}
        out = ctx.export()
        out["failure"] = failure
        out["wall"] = time.time() - t0
        return out
    except HarnessError as e:
        return {"harness_error": f"{e}\n{traceback.format_exc()}"}
    except Exception:  # noqa: BLE001
        return {"harness_error": traceback.format_exc()}


def _job_proc(job, q):
    _limit_memory()
    q.put(_worker(job))


def _isolate_crash(prop, jobs, ctx_mp):
    """A worker died abruptly (interpreter crash inside the code under test, or an OOM kill). Re-run every job in its
    own process with a breadcrumb file; the case a dying process was executing becomes an 'interpreter-crash' violation."""
    import tempfile

    results = []
    tmp = tempfile.mkdtemp(prefix="vp-crumb-")
    try:
        for job in jobs:
            crumb = os.path.join(tmp, "crumb.json")
            if os.path.exists(crumb):
                os.remove(crumb)
            os.environ["VERIF_BREADCRUMB"] = crumb
            q = ctx_mp.Queue()
            p = ctx_mp.Process(target=_job_proc, args=(job, q))
            p.start()
            res = None
            while p.is_alive() or not q.empty():
                try:
                    res = q.get(timeout=0.5)
                    break
                except Exception:  # noqa: BLE001 - queue.Empty
                    continue
            p.join()
            if res is None:
                if not os.path.exists(crumb):
                    return None
                with open(crumb) as fh:
                    case = json.load(fh)
                kind = "interpreter-crash"
                detail = f"the Python process died (exit code {p.exitcode}) while running this case"
                res = Ctx().export()
                res.update(wall=0.0, failure={"case": case, "kind": kind, "detail": detail, "signature": kind})
            results.append(res)
    finally:
        os.environ.pop("VERIF_BREADCRUMB", None)
        import shutil

        shutil.rmtree(tmp, ignore_errors=True)
    return results


def shrink_pass(prop, job, failure, ctx_mp, seconds=25):
    """Quick tier: re-run the failing Hypothesis shard in its own process with the shrink phase on (capped at `seconds`).
    Returns the shrunk failure if it reproduces here with the same signature, else the failure as found."""
    import queue as _queue

    job2 = job[:5] + (("shrink", failure["signature"], seconds),)
    q = ctx_mp.Queue()
    p = ctx_mp.Process(target=_job_proc, args=(job2, q))
    p.start()
    res = None
    deadline = time.time() + 3 * seconds + 120
    while time.time() < deadline:
        try:
            res = q.get(timeout=0.5)
            break
        except _queue.Empty:
            if not p.is_alive() and q.empty():
                break
    if p.is_alive():
        p.terminate()
    p.join()
    if not res or res.get("harness_error") or not res.get("failure"):
        return failure
    f2 = res["failure"]
    if f2["signature"] != failure["signature"]:
        return failure
    try:
        prop.run_case(json.loads(json.dumps(f2["case"], default=str)), Ctx())
    except Violation as v:
        if v.signature == failure["signature"]:
            size0 = len(json.dumps(failure["case"], default=str))
            size1 = len(json.dumps(f2["case"], default=str))
            f2 = dict(f2, shrunk_from_bytes=size0, shrunk_to_bytes=size1)
            return f2
    except Exception:  # noqa: BLE001 - a shrunk case that does not replay cleanly is not used
        pass
    return failure


def minimise(prop, known, failure, budget_s=20.0):
    """Cheap generic minimiser (quick tier has no Hypothesis shrink phase): uses prop.shrink_candidates if given."""
    cand_fn = getattr(prop, "shrink_candidates", None)
    if cand_fn is None:
        return failure
    t0 = time.time()
    cur = failure
    improved = True
    while improved and time.time() - t0 < budget_s:
        improved = False
        for cand in cand_fn(cur["case"]):
            if time.time() - t0 > budget_s:
                break
            try:
                prop.run_case(cand, Ctx())
            except Violation as v:
                if v.signature == cur["signature"] and known.match(cand, v) is None:
                    cur = {"case": cand, "kind": v.kind, "detail": v.detail, "signature": v.signature}
                    improved = True
                    break
            except Exception:  # noqa: BLE001 - a candidate outside the domain is simply not smaller
                continue
    return cur


def write_replay(prop, failure, tag="violation"):
    d = os.path.join(VERIF, "replays", prop.ID, "found")  # not auto-replayed; committed regressions live one level up
    if os.environ.get("VERIF_EVIDENCE_DIR"):  # sensitivity self-test: keep /verif untouched
        d = os.path.join(os.environ["VERIF_EVIDENCE_DIR"], "found", prop.ID)
    os.makedirs(d, exist_ok=True)
    h = hashlib.sha1(json.dumps(failure["case"], sort_keys=True, default=str).encode()).hexdigest()[:10]
    path = os.path.join(d, f"{tag}-{h}.json")
    with open(path, "w") as fh:
        json.dump(
            {
                "property": prop.ID,
                "signature": failure["signature"],
                "kind": failure["kind"],
                "detail": failure["detail"],
                "case": failure["case"],
                **({"shrunk": {"from_bytes": failure["shrunk_from_bytes"], "to_bytes": failure["shrunk_to_bytes"], "how": "Hypothesis shrink phase on the failing shard, capped"}} if "shrunk_from_bytes" in failure else {}),
            },
            fh,
            indent=1,
            sort_keys=True,
            default=str,
        )
    return os.path.relpath(path, VERIF) if path.startswith(VERIF) else path


def run_replays(prop, known, only=None):
    """Replay committed regression cases (and known-finding reproducers are handled by load_known)."""
    fails = []
    n = 0
    d = os.path.join(VERIF, "replays", prop.ID)
    files = [only] if only else sorted(os.path.join(d, f) for f in (os.listdir(d) if os.path.isdir(d) else []) if f.endswith(".json"))
    for path in files:
        with open(path) as fh:
            rec = json.load(fh)
        case = rec["case"] if "case" in rec else rec
        n += 1
        try:
            prop.run_case(case, Ctx())
        except Violation as v:
            if only is None and known.match(case, v) is not None:
                continue
            fails.append((path, v))
    return n, fails


def run_check(prop, tier, seed, replay=None):
    t0 = time.time()
    import_repo()
    if hasattr(prop, "selfcheck"):
        prop.selfcheck()
    known = load_known(prop)
    for line in known.lines:
        print(line)

    if replay:
        n, fails = run_replays(prop, known, only=replay)
        if fails:
            path, v = fails[0]
            print(f"replay {path}: {v.kind}: {v.detail}")
            print(f"VIOLATION property={prop.ID} replay={os.path.relpath(os.path.abspath(path), VERIF)}")
            return 1
        print(f"replay {replay}: passes")
        return 0

    n_replays, fails = run_replays(prop, known)
    violations = []
    for path, v in fails:
        violations.append({"replay": os.path.relpath(path, VERIF), "kind": v.kind, "detail": v.detail, "signature": v.signature, "stage": "replay"})

    stages = prop.stages(tier)
    jobs = []
    only = [x for x in os.environ.get("VERIF_STAGES", "").split(",") if x]  # development aid: run the named stages only
    for si, stage in enumerate(stages):
        if only and stage.name not in only:
            continue
        for sh in range(stage.shards):
            jobs.append((prop.__name__.split(".")[-1], si, sh, tier, seed, ()))
    nproc = min(16, max(1, len(jobs)))
    ctx_mp = multiprocessing.get_context("fork")
    # ProcessPoolExecutor (unlike Pool.map) notices a worker that died (OOM kill, interpreter crash): harness error
    from concurrent.futures import ProcessPoolExecutor
    from concurrent.futures.process import BrokenProcessPool

    # wall-clock guard against a worker that never returns (never a verdict about the property: exit 2 = inconclusive)
    budget = float(os.environ.get("VERIF_RUN_TIMEOUT_S", "3600" if tier == "quick" else "21600"))
    from concurrent.futures import TimeoutError as _FTimeout

    try:
        pool = ProcessPoolExecutor(max_workers=nproc, mp_context=ctx_mp, initializer=_limit_memory)
        try:
            results = list(pool.map(_worker, jobs, chunksize=1, timeout=budget))
        except _FTimeout:
            for pr in list(getattr(pool, "_processes", {}).values()):
                pr.kill()
            pool.shutdown(wait=False, cancel_futures=True)
            print(f"HARNESS ERROR in {prop.ID}: no result within {budget:.0f} s (VERIF_RUN_TIMEOUT_S); inconclusive", file=sys.stderr)
            return 2
        else:
            pool.shutdown()
    except BrokenProcessPool:
        results = _isolate_crash(prop, jobs, ctx_mp)
        if results is None:
            print(f"HARNESS ERROR in {prop.ID}: a worker process died and the crash could not be attributed to a case (OOM kill? see dmesg)", file=sys.stderr)
            return 2

    total_eval = 0
    nontrivial = set()
    counters = Counter()
    known_hits = Counter()
    also_seen = Counter()
    samples = []
    per_stage = {}
    for job, res in zip(jobs, results):
        if "harness_error" in res:
            print(f"HARNESS ERROR in {prop.ID} stage {stages[job[1]].name} shard {job[2]}:\n{res['harness_error']}", file=sys.stderr)
            return 2
        st = stages[job[1]]
        ps = per_stage.setdefault(st.name, {"evaluations": 0, "shards": st.shards, "wall_s": 0.0, "kind": type(st).__name__})
        ps["evaluations"] += res["evaluations"]
        ps["wall_s"] = round(max(ps["wall_s"], res["wall"]), 2)
        if getattr(st, "exhaustive", False):
            ps["exhaustive"] = True
            ps["scope"] = st.scope
        total_eval += res["evaluations"]
        nontrivial |= res["nontrivial"]
        counters.update(res["counters"])
        known_hits.update(res["known_hits"])
        also_seen.update(res["also_seen"])
        if job[2] == 0:
            samples.extend(res["samples"][:3])
        if res["failure"]:
            f = dict(res["failure"])
            f["stage"] = st.name
            f["shard"] = job[2]
            violations.append(f)

    exit_code = 0
    if violations:
        first = violations[0]
        if "replay" not in first:
            if tier == "quick" and first.get("kind") != "interpreter-crash" and os.environ.get("VERIF_NO_SHRINK") != "1":
                fjob = next((j for j in jobs if stages[j[1]].name == first["stage"] and j[2] == first["shard"]), None)
                if fjob is not None and isinstance(stages[fjob[1]], HypStage):
                    shrunk = shrink_pass(prop, fjob, first, ctx_mp)
                    if shrunk is not first:
                        shrunk["stage"], shrunk["shard"] = first["stage"], first["shard"]
                        violations[0] = first = shrunk
                first = minimise(prop, known, first)
                violations[0] = first
            first["replay"] = write_replay(prop, first)
        # distinct signatures are listed; one VIOLATION line per distinct signature (first is the deciding one)
        seen = set()
        for v in violations:
            if v["signature"] in seen:
                continue
            seen.add(v["signature"])
            if "replay" not in v:
                v["replay"] = write_replay(prop, v)
            print(f"  {v['kind']}: {v['detail'][:600]}")
            print(f"VIOLATION property={prop.ID} replay={v['replay']}")
        exit_code = 1

    wall = time.time() - t0
    all_exhaustive = bool(per_stage) and all(p.get("exhaustive") for p in per_stage.values())
    evidence = {
        "property_id": prop.ID,
        "tier": tier,
        "seed": seed,
        "level": getattr(prop, "LEVEL", "exploration"),
        "coverage": {
            "evaluations": total_eval,
            "distinct_nontrivial": len(nontrivial),
            "rule": prop.RULE,
            "samples": samples[:10],
            "exhaustive": all_exhaustive,
            "classes": dict(sorted(counters.items())),
            "stages": per_stage,
            "replays_run": n_replays,
            "known_hits": dict(known_hits),
            "known_findings_active": [f["id"] for f, _ in known.active],
            "also_seen": dict(also_seen),
        },
        "assumptions": list(getattr(prop, "ASSUMPTIONS", [])),
        "wall_s": round(wall, 2),
        "violations": len({v["signature"] for v in violations}),
    }
    evdir = os.environ.get("VERIF_EVIDENCE_DIR") or os.path.join(VERIF, "evidence")
    os.makedirs(evdir, exist_ok=True)
    with open(os.path.join(evdir, f"{prop.ID}.json"), "w") as fh:
        json.dump(evidence, fh, indent=1, default=str)
    print(
        f"{prop.ID} {tier} seed={seed}: {total_eval} cases, {len(nontrivial)} distinct non-trivial, "
        f"{sum(known_hits.values())} known-finding hits, {len(violations)} violations, {wall:.1f}s"
    )
    return exit_code
