"""Helpers shared by the struct-level properties (C01, C02, C03, C06, C07, C08, C09 ...)."""
from __future__ import annotations

from pbt import gens, libside, refsem
from pbt.drive import Err, Violation, lib
from pbt.refsem import SCALARS, Sem

ROOT = gens.ROOT


def model_features(sem, t, acc=None, depth=0):
    """Set of structural labels of a type (used for class histograms and non-triviality rules)."""
    acc = acc if acc is not None else set()
    t = sem.res(t)
    k = t["k"]
    if k == "s":
        c = SCALARS[t["n"]][0]
        acc.add({"int": "int", "float": "float", "char": "char", "wchar": "wchar", "leb": "leb128", "void": "void"}[c])
        if t["n"] in gens.INT_ODD:
            acc.add("odd-width-int")
    elif k == "e":
        d = sem.enumdef(t)
        acc.add(d["kind"])
        if d["kind"] == "flag" and SCALARS[d["base"]][3]:
            acc.add("signed-flag")
    elif k == "p":
        acc.add("pointer")
    elif k == "a":
        acc.add("array")
        acc.add("array:" + t["len"][0])
        if t["len"][0] == "fixed" and t["len"][1] == 0:
            acc.add("array:zero-length")
        if sem.res(t["t"])["k"] == "a":
            acc.add("array:multidim")
        if sem.res(t["t"])["k"] == "st":
            acc.add("array:of-struct")
        if sem.res(t["t"])["k"] == "p":
            acc.add("array:of-pointer")
        model_features(sem, t["t"], acc, depth)
    elif k == "st":
        if depth > 0:
            acc.add("nested-" + t["kind"])
        elif t["kind"] == "union":
            acc.add("union")
        lay = sem.layout(t)
        if lay["size"] is None:
            acc.add("dynamic")
        nbits = 0
        for f in t["fields"]:
            if f.get("bits"):
                nbits += 1
                acc.add("bit-field")
            if f.get("name") is None:
                acc.add("anonymous-member")
            elif f["name"] in gens.HAZARD_NAMES:
                acc.add("hazard-name")
            model_features(sem, f["t"], acc, depth + 1)
        if nbits >= 2:
            acc.add("bit-field:multi")
        acc.add(f"fields:{min(len(t['fields']), 8)}")
    return acc


def describe(case, extra=None):
    d = {"definition": libside.render(case["defs"]), "cfg": case["cfg"], "data": case.get("data")}
    if extra:
        d.update(extra)
    return d


def reference(case, data=None):
    """Reference decode of the case's input. -> dict(sem, data, status, want, end, mask, leaves)."""
    sem = Sem(case["defs"], case["cfg"])
    data = bytes.fromhex(case["data"]) if data is None else data
    mask = bytearray(len(data))
    sem.enum_leaves = []
    sem.union_spans = []
    out = {"sem": sem, "data": data, "mask": mask}
    try:
        want, end = sem.decode(ROOT, data, 0, mask)
        out.update(status="ok", want=want, end=end)
        if end > len(data):  # trailing alignment padding may lie beyond the input; it carries no data
            mask.extend(bytes(end - len(data)))
            out["data"] = data + bytes(end - len(data))
            out["padding_beyond_input"] = True
        if refsem.has_nan(want):
            out["status"] = "noncanonical"
    except refsem.Short as e:
        out.update(status="short", at=e.at)
    except refsem.NonCanonical:
        out.update(status="noncanonical")
    except refsem.RaggedEOF:
        out.update(status="ragged-eof")
    except (refsem.Unsupported, MemoryError):
        out.update(status="unsupported")
    out["leaves"] = sem.enum_leaves
    out["unions"] = sem.union_spans
    sem.enum_leaves = None
    sem.union_spans = None
    return out


def load(case, compiled=None):
    """Load the case's definition; a rejected definition is a violation (the generator emits supported grammar only)."""
    le = case["cfg"].get("load_endian")
    cs = lib(libside.load, case["defs"], dict(case["cfg"], endian=le) if le else case["cfg"], compiled)
    if le and not isinstance(cs, Err):
        cs.endian = case["cfg"]["endian"]
    if isinstance(cs, Err):
        raise Violation(
            "definition-rejected",
            f"load(compiled={case['cfg'].get('compiled') if compiled is None else compiled}, align={case['cfg']['align']}) raised {cs}\n{libside.render(case['defs'])}",
            cs.where,
        )
    return cs


def neg_flag_spans(ref):
    """Byte spans of flag values over a signed underlying type whose value is negative (known finding KF-FLAG)."""
    return [(a, b) for a, b, d, v in ref["leaves"] if d["kind"] == "flag" and SCALARS[d["base"]][3] and v < 0]


def diff_paths(a, b, path=""):
    """Paths at which two canonical plain values differ."""
    if isinstance(a, dict) and isinstance(b, dict) and list(a) == list(b):
        out = []
        for k in a:
            out += diff_paths(a[k], b[k], f"{path}.{k}")
        return out
    if isinstance(a, list) and isinstance(b, list) and len(a) == len(b):
        out = []
        for i, (x, y) in enumerate(zip(a, b)):
            out += diff_paths(x, y, f"{path}[{i}]")
        return out
    return [] if a == b else [path or "."]


def walk_pairs(sem, t, want, got, path=""):
    """Yield (path, resolved type, want, got) for every leaf position where the canonical values differ."""
    t = sem.res(t)
    k = t["k"]
    if k == "st" and isinstance(want, dict) and isinstance(got, dict) and list(want) == list(got):
        for i, f in enumerate(t["fields"]):
            key = refsem.fkey(f, i)
            yield from walk_pairs(sem, f["t"], want[key], got[key], f"{path}.{key}")
        return
    if k == "a" and isinstance(want, list) and isinstance(got, list) and len(want) == len(got):
        for i, (x, y) in enumerate(zip(want, got)):
            yield from walk_pairs(sem, t["t"], x, y, f"{path}[{i}]")
        return
    if want != got:
        yield (path or ".", t, want, got)


def only_negative_signed_flags_differ(sem, want, got):
    """True when every differing leaf is a flag over a signed base whose reference value is negative."""
    diffs = list(walk_pairs(sem, ROOT, refsem.canon(want), got))
    if not diffs:
        return False
    for _, t, w, _ in diffs:
        if t["k"] != "e":
            return False
        d = sem.enumdef(t)
        if not (d["kind"] == "flag" and SCALARS[d["base"]][3] and isinstance(w, int) and w < 0):
            return False
    return True


def union_dump_blind_spots(ref):
    """Byte indices that carry data of some union member but are padding (or beyond the end) in the member the
    library's union writer serialises (known finding KF-UNION-DUMP)."""
    sem, data = ref["sem"], ref["data"]
    blind = set()
    for pos, end, u in ref["unions"]:
        if len(u["fields"]) < 2:
            continue
        w = u["fields"][sem.union_written_member(u)]
        m = bytearray(len(data))
        try:
            sem.decode(w["t"], data, pos, m, None)
        except (refsem.Short, refsem.NonCanonical):
            continue
        for i in range(pos, min(end, len(data))):
            if m[i] != 0xFF:
                blind.add(i)
    return blind
