#!/bin/sh
# usage: tools/mutrun.sh DIR "PROPS" "SEEDS" — run quick checks against an already modified copy of the repository (DIR holds dissect/)
DIR="$1"; PROPS="$2"; SEEDS="${3:-1}"
for P in $PROPS; do for S in $SEEDS; do
  EV=$(mktemp -d /tmp/vp-mutev-XXXXXX)
  o=$(VERIF_NO_SHRINK=1 VERIF_SEED=$S VERIF_REPO="$DIR" VERIF_EVIDENCE_DIR="$EV" ./check $P --tier quick 2>&1); e=$?
  k=$(echo "$o" | grep -v "WARNING\|KNOWN-FINDING" | grep "^  " | head -1 | cut -c1-150)
  echo "$DIR check=$P seed=$S exit=$e $k"; rm -rf "$EV"
done; done
