#!/bin/sh
# usage: tools/seedrun.sh NAME "PROPS" "SEEDS" — applies seeded/NAME/patch.diff to a scratch copy of the CURRENT /repo, runs the
# named quick checks against it (evidence redirected to /tmp) and prints one line per run. Nothing is written to /repo or seeded/.
NAME="$1"; PROPS="$2"; SEEDS="${3:-1}"
RUN=$(mktemp -d /tmp/vp-seedrun-XXXXXX); mkdir -p "$RUN/repo"
(cd /repo && tar -c --exclude=.git --exclude=__pycache__ . ) | tar -x -C "$RUN/repo"
if ! (cd "$RUN/repo" && patch -p1 -s < "/verif/seeded/$NAME/patch.diff"); then echo "$NAME: patch does not apply"; rm -rf "$RUN"; exit 2; fi
for P in $PROPS; do for S in $SEEDS; do
  o=$(VERIF_NO_SHRINK=${VERIF_NO_SHRINK:-1} VERIF_SEED=$S VERIF_REPO="$RUN/repo" VERIF_EVIDENCE_DIR="$RUN/ev" ./check $P --tier "${SEED_TIER:-quick}" 2>&1); e=$?
  k=$(echo "$o" | grep -v "WARNING\|KNOWN-FINDING" | grep "^  " | head -1 | cut -c1-140)
  echo "$NAME check=$P seed=$S exit=$e $k"
done; done
rm -rf "$RUN"
