#!/bin/sh
# usage: tools/seedrun_all.sh [round-suffix, e.g. r9 | "" for round 1] [seeds]  -- re-runs every stored seeded change of a round against the
# property's own quick check (a scratch copy of the CURRENT /repo per change); prints one line per run and a summary.
R="$1"; SEEDS="${2:-1}"
n=0; hit=0
for d in seeded/C??${R:+-$R}; do
  [ -f "$d/patch.diff" ] || continue
  name=$(basename "$d"); P=$(echo "$name" | cut -c1-3)
  out=$(sh tools/seedrun.sh "$name" "$P" "$SEEDS" 2>&1 | grep -v WARNING)
  echo "$out" | cut -c1-160
  n=$((n + 1)); echo "$out" | grep -q "exit=0\|exit=2\|does not apply" || hit=$((hit + 1))
done
echo "detected at every seed: $hit / $n"
