#!/venv/bin/python -B
"""Writes the committed regression replays for the repository fixes (one minimal case per repaired root cause).
Each replay is a plain case for the property's run_case: ./check <ID> --replay replays/<ID>/fixed-*.json
passes on the repaired tree and reports the violation on the pinned tree (see tools/replays_vs_pinned.sh)."""
import json
import os
import sys

VERIF = os.path.dirname(os.path.dirname(os.path.abspath(__file__)))
sys.path.insert(0, VERIF)
from pbt.refsem import S  # noqa: E402


def f(name, t, bits=None):
    return {"name": name, "t": t, "bits": bits}


def st(fields, kind="struct"):
    return {"k": "st", "kind": kind, "name": None, "fields": fields}


def arr(t, n):
    return {"k": "a", "t": t, "len": ["fixed", n]}


def root(fields, kind="struct", extra=()):
    return list(extra) + [{"k": "structdef", "n": "Root", "t": st(fields, kind)}]


def cfg(endian="<", align=False, compiled=False, ptr="uint32"):
    return {"endian": endian, "align": align, "ptr": ptr, "compiled": compiled}


R = []


def add(prop, name, note, case):
    R.append((prop, name, note, case))


PAT = bytes((i * 37 + 11) & 0xFF or 1 for i in range(64)).hex()

# --- bit-fields
add("C06", "fixed-bitfield-after-dynamic", "36b15ee: two bit-fields after a dynamic field raised TypeError at load",
    {"stage": "random", "defs": root([f("n", S("uint8")), f("d", {"k": "a", "t": S("char"), "len": ["expr", "n", ["id", "n"]]}), f("x", S("uint8"), 2), f("y", S("uint8"), 3)]),
     "root": "Root", "cfg": cfg(), "data": "026869ff"})
add("C01", "fixed-signed-bitfield-unit", "209e88c: signed storage unit with the top bit set could not be dumped",
    {"stage": "roundtrip", "mode": "parsed", "defs": root([f("a", S("int8"), 4), f("b", S("int8"), 4), f("z", S("uint16"))]), "root": "Root", "cfg": cfg(), "data": "f13412"})
add("C02", "fixed-signed-bitfield-unit", "209e88c", {"stage": "constructive", "defs": root([f("a", S("int16"), 9), f("b", S("int16"), 7)]), "root": "Root", "cfg": cfg(">"), "data": "ff81"})
# --- compiler
add("C03", "fixed-compiled-nameerror", "6480a54: { uint16 a; char b; } compiled raised NameError",
    {"stage": "diff", "defs": root([f("a", S("uint16")), f("b", S("char"))]), "root": "Root", "cfg": cfg(compiled=True), "data": "010203", "raw": "0102"})
add("C03", "fixed-compiled-zero-length-array", "6480a54: zero-length packed array next to byte fields",
    {"stage": "diff", "defs": root([f("a", S("char")), f("b", arr(S("uint16"), 0))]), "root": "Root", "cfg": cfg(compiled=True), "data": "41", "raw": ""})
add("C03", "fixed-compiled-block-after-struct", "4768910: aligned block after nested struct read from unpadded offset",
    {"stage": "diff", "defs": root([f("s", st([f("x", S("uint8"))])), f("b", S("uint32"))]), "root": "Root", "cfg": cfg(align=True, compiled=True), "data": "01eeeeee05060708", "raw": ""})
add("C03", "fixed-compiled-block-after-bits", "4768910",
    {"stage": "diff", "defs": root([f("a", S("uint8"), 3), f("b", S("int64"))]), "root": "Root", "cfg": cfg(">", align=True, compiled=True), "data": "01eeeeeeeeeeeeee0102030405060708", "raw": ""})
add("C03", "fixed-compiled-align-after-dynamic", "037e34b: padding after a dynamic member computed from an imaginary offset",
    {"stage": "diff", "defs": root([f("n", {"k": "a", "t": S("uint8"), "len": ["null"]}), f("a", S("uint8")), f("f", S("uint32"))]), "root": "Root", "cfg": cfg(align=True, compiled=True), "data": "010005ee0102030405060708090a0b0c", "raw": ""})
add("C03", "fixed-compiled-enum-int24-array", "d792c30: arrays of enums over int24 split per byte",
    {"stage": "diff", "defs": root([f("e", arr({"k": "e", "n": "E"}, 2)), f("z", S("uint8"))], extra=[{"k": "enumdef", "n": "E", "kind": "enum", "base": "uint24", "members": [["A", 1]]}]),
     "root": "Root", "cfg": cfg(compiled=True), "data": "01000002000007", "raw": ""})
add("C03", "fixed-compiled-bit-unit-tracking", "305307c: bit-field unit tracking ran ahead, seek skipped",
    {"stage": "diff", "defs": root([f("f0", S("uint32"), 32), f("f6", S("int32"), 3), f("f3", S("int32"), 29), f("f8", S("int32"), 2), f("f5", S("int32"), 9), f("f2", arr(st([f("q", S("int64"))]), 0)), f("f7", arr(S("char"), 2)), f("a", S("uint16"))]),
     "root": "Root", "cfg": cfg(">", align=True, compiled=True), "data": PAT[:48], "raw": ""})
# --- enums / flags
add("C12", "fixed-flag-alias-sort-order", "cc10404: flag with alias members declared out of order raised AttributeError",
    {"stage": "declarations", "kind": "flag", "base": "uint8", "members": [["A", "29", ["lit", 29, "29"]], ["B", "32", ["lit", 32, "32"]], ["C", "16", ["lit", 16, "16"]], ["D", "32", ["lit", 32, "32"]]],
     "name": "E", "legacy": False, "compiled": False, "endian": "<", "salt": 1, "layout": "oneline", "tier": "quick"})
# --- unions
UN = st([f("s", st([f("a", S("uint8")), f("b", S("uint8"))])), f("w", S("uint16"))], "union")
add("C01", "fixed-unionproxy-eq", "36ff71d",
    {"stage": "roundtrip", "mode": "parsed", "defs": root([f("x", S("uint8")), {"name": None, "t": st([f("c", arr(S("char"), 1)), f("u", st([f("c2", S("char")), f("i", S("int32"))], "union"))], "union"), "bits": None}]),
     "root": "Root", "cfg": cfg(">"), "data": "0061000000"})
add("C11", "fixed-nested-union-proxy", "6182d9c: union in union with struct member crashed; two-level nested write raised KeyError",
    {"stage": "histories", "defs": root([f("w", S("uint32")), f("inn", st([f("h", S("uint16")), f("s", st([f("a", S("uint8")), f("b", S("uint8"))]))], "union"))], "union"),
     "root": "Root", "cfg": cfg(), "data": "01020304", "wrapped": False, "ops": [["nested", 0, "aa" * 40], ["member", 0, "11223344" * 10]]})
add("C11", "fixed-two-level-nested-write", "6182d9c",
    {"stage": "histories", "defs": root([f("w", S("uint32")), f("s", st([f("x", S("uint8")), f("inn", st([f("q", S("uint8")), f("r", S("uint8"))]))]))], "union"),
     "root": "Root", "cfg": cfg(), "data": "01020304", "wrapped": False, "ops": [["nested", 1, "bb" * 40], ["nested", 2, "cc" * 40]]})
add("C11", "fixed-anonymous-member-write", "8a42f94: assigning a field of an anonymous struct member of a union raised KeyError",
    {"stage": "histories", "defs": root([f("w", S("uint32")), {"name": None, "t": st([f("m", S("uint8")), f("n", S("uint8"))]), "bits": None}], "union"),
     "root": "Root", "cfg": cfg(), "data": "01020304", "wrapped": False, "ops": [["nested", 0, "cc" * 40], ["nested", 1, "dd" * 40]]})
# --- dumpstruct
add("C19", "fixed-dumpstruct-bitfields", "bf636a7: dumpstruct(colour) raised KeyError for bit-fields",
    {"stage": "dumpstruct", "dumpstruct": True, "offset": 0, "defs": root([f("a", S("uint8"), 4), f("b", S("uint8"), 4), f("c", S("uint16"))]), "root": "Root", "cfg": cfg(), "data": "213412"})
add("C19", "fixed-dumpstruct-void-compiled", "bf636a7: compiled reader records no size for void fields",
    {"stage": "dumpstruct", "dumpstruct": True, "offset": 0, "defs": root([f("x", S("uint8")), f("v", S("void")), f("y", S("uint8"))]), "root": "Root", "cfg": cfg(compiled=True), "data": "0102"})
add("C19", "fixed-dumpstruct-char-shortcut", "6d1a882: dumpstruct(T, data) for a single char field raised AttributeError",
    {"stage": "dumpstruct", "dumpstruct": True, "offset": 0, "defs": root([f("f0", arr(S("char"), 2))]), "root": "Root", "cfg": cfg(), "data": "6162"})
# --- defaults
add("C14", "fixed-shared-defaults", "8c74e3e / 422c645: default arrays and nested structs shared between instances",
    {"stage": "histories", "objs": [{"variant": 2, "endian": "<", "compiled": False}],
     "ops": [["default", 0, "P", "00" * 48], ["mutate", 0, 0, 7], ["mutate", 0, 1, 9], ["mutate", 0, 2, 3], ["mutate", 0, 3, 5], ["mutate", 0, 4, 5], ["mutate", 0, 5, 5], ["default", 0, "P", "00" * 48], ["kwpartial", 0, "P", "01" * 48], ["mutate", 2, 0, 9], ["default", 0, "P", "00" * 48]]})
# --- pointers
add("C16", "fixed-pointer-in-union", "67090ab: a pointer member of a fixed-size union kept the union's private buffer as its stream",
    {"stage": "union-members", "unionptr": True, "ptr": "uint16", "endian": "<", "compiled": False, "form": "direct", "where": "member", "pad": 0})
add("C16", "fixed-deref-restores-position", "8a29ebc: failed dereference left the stream at the target",
    {"stage": "heap", "defs": [{"k": "enumdef", "n": "E", "kind": "enum", "base": "uint16", "members": [["A", 1], ["B", 2]]},
                               {"k": "structdef", "n": "Tgt", "t": st([f("a", S("uint16")), f("b", S("uint8")), f("c", arr(S("uint8"), 2))])},
                               {"k": "structdef", "n": "Root", "t": st([f("pa0", arr({"k": "p", "t": S("uint64")}, 1)), f("p1", {"k": "p", "t": S("void")}), f("tail", S("uint8"))])}],
     "root": "Root", "cfg": cfg(ptr="uint8"), "image": "07007e0000", "plan": [["pa0", 0, "uint64", "past"], ["p1", None, "void", "null"]]})
# --- parser (C13): text items
def items(*texts):
    out = []
    for i, t in enumerate(texts):
        name = t.split()[1] if not t.startswith("#") else t.split()[1]
        out.append({"kind": "x", "name": name.strip(":{"), "text": t, "deps": [], "names": [name.strip(":{")]})
    return out


add("C13", "fixed-enum-newline-before-equals", "8a6254b / bcea6f4: newline (or blank line) before '=' renumbered the enum",
    {"stage": "trivia", "edit": "trivia", "items": items("enum E1 : uint8 { E1_A, E1_B = 4, E1_C = E1_B + 3 };\n", "struct S2 { E1 a; uint8 b; };\n"),
     "inserts": [[4, 5], [7, 3], [10, 3]], "crlf": False, "compiled": False, "align": False})
add("C13", "fixed-enum-base-whitespace", "74f1465: blanks inside a multi-word enum base type",
    {"stage": "trivia", "edit": "trivia", "items": items("enum E1 : unsigned int { E1_A, E1_B };\n", "struct S2 { E1 a; };\n"),
     "inserts": [[3, 1], [3, 3]], "crlf": False, "compiled": False, "align": False})
add("C13", "fixed-crlf-line-comment", "0b09e2e: CRLF text kept // comments",
    {"stage": "trivia", "edit": "trivia", "items": items("struct S1 { uint8 a; uint8 c; };\n"),
     "inserts": [[5, 16]], "crlf": True, "compiled": False, "align": False})
# --- stubs
add("C20", "fixed-stub-anonymous-enum", "d16cc6f", {"stage": "stubs", "items": items("enum : uint8 { E1_A, E1_B = 5 };\n"), "consts": [], "keywords": False, "compiled": False, "api_aliases": []})
add("C20", "fixed-stub-array-pointer-typedef", "650527c", {"stage": "stubs", "items": items("typedef uint32 T1[4];\n", "typedef uint8 *T2;\n", "struct S3 { T1 a; T2 p; };\n"), "consts": [], "keywords": False, "compiled": False, "api_aliases": []})
add("C20", "fixed-stub-string-alias", "8bfbdeb", {"stage": "stubs", "items": items("struct S1 { uint8 a; };\n"), "consts": [], "keywords": False, "compiled": False, "api_aliases": [["api0", "uint32"], ["api1", "DWORD"]]})
# --- concurrency
add("C15", "fixed-expression-thread-safety", "d021998: Expression.evaluate kept its stacks on the shared object",
    {"stage": "k1-exhaustive", "defs": root([f("cnt", S("uint8")), f("dyn", {"k": "a", "t": S("char"), "len": ["expr", "cnt * 2 + 1", ["bin", "+", ["bin", "*", ["id", "cnt"], ["lit", 2, "2"]], ["lit", 1, "1"]]]})]),
     "root": "Root", "cfg": cfg(), "datas": ["0041000000", "01424344000000"]})

# --- found by the audit round (DESIGN 8.3)
add("C03", "fixed-compiled-char-bitfield-unit", "1195d85: compiled reader let a char bit-field share the unit of a neighbouring uint8 bit-field",
    {"stage": "diff", "defs": root([f("a", S("uint8"), 4), f("b", S("char"), 4), f("t", S("uint8"))]), "root": "Root", "cfg": cfg(compiled=True), "data": "a7c35a", "raw": ""})
add("C09", "fixed-char-bitfield-value-shortcut", "3aabc3e: Root(b'A') for struct { char c : 8; } stored bytes in the bit-field instead of parsing",
    {"stage": "streams", "defs": root([f("c", S("char"), 8)]), "root": "Root", "cfg": cfg(), "data": "41", "consumed": 1, "p": 0, "prefixes": ["", ""], "suffixes": ["", ""], "seq": 0, "cut": 0})
add("C04", "fixed-default-char-bitfield-dump", "3bfc58f: R().dumps() raised TypeError for struct R { char a : 8; }",
    {"stage": "nested", "defs": root([f("a", S("char"), 8)]), "root": "Root", "cfg": cfg()})
add("C09", "fixed-dynamic-union-sizes", "68eab87: recorded sizes of a dynamic union included the stream position",
    {"stage": "dynamic-unions", "dynunion": True, "text": "struct Root { char p0[3]; union { struct { uint8 len; char data[len]; } m0; uint16 m1; } u; uint8 q0; };", "data": "616263024142ee" + "00" * 20,
     "p": 7, "prefix": "00112233445566", "suffix": "", "compiled": False, "endian": "<"})
add("C08", "fixed-dynamic-union-backing-read", "2d7bc12: a short read while re-reading a dynamic union's bytes fabricated the next field",
    {"stage": "dynamic-unions", "dynunion": True, "text": "struct Root { union { char m0[]; } u; uint8 q0; };", "data": "6162007f", "p": 0, "prefix": "", "suffix": "", "compiled": False, "endian": "<"})
add("C06", "fixed-aligned-odd-storage-unit", "d0c7a6d: aligned mode, second bit-field of a 24-bit unit laid out in a phantom second unit",
    {"stage": "random", "defs": root([f("lead", S("uint8")), f("a", S("uint24"), 21), f("b", S("uint24"), 3), f("tail", S("uint8"))]), "root": "Root", "cfg": cfg(align=True, compiled=True), "data": "01eeeeee05060708"})
add("C12", "fixed-enum-equals-flag", "1c8486a: an enum member compared equal to a flag member of the same value",
    {"stage": "declarations", "shadow": None, "kind": "enum", "base": "uint8", "members": [["A", "1", ["lit", 1, "1"]], ["B", None, None]], "name": "E", "legacy": False, "compiled": False,
     "endian": "<", "salt": 1, "layout": "oneline", "base_spelling": 0, "tier": "quick"})
add("C13", "fixed-declarator-whitespace", "7d6d95a: 'uint8 a [2];' was rejected, 'uint8 * *p;' declared uint8*",
    {"stage": "trivia", "edit": "trivia", "items": [{"kind": "struct", "name": "S1", "text": "struct S1 { uint8 a[2]; uint8 **p; uint8 b[2][3]; };\n", "deps": [], "names": ["S1"]}],
     "inserts": [[0, 0, 13], [1, 0, 13], [2, 3, 13], [0, 0, 1]], "crlf": False, "compact": False, "compiled": False, "align": False})
add("C13", "fixed-derived-typedef-redeclared", "741bfa2: 'typedef uint32 *P;' loaded twice raised Duplicate type",
    {"stage": "aliases", "edit": "aliases", "depth": 2, "base": "uint32", "multi": 1, "via": "typedef", "redeclare_same": True, "cycle_len": 2, "unknown": "nosuch"})
add("C20", "fixed-inline-structure-behind-pointer", "8eee89c: Pointer[cstruct.__anonymous_0__] without a class of that name",
    {"stage": "stubs", "items": [{"kind": "struct", "name": "S1", "text": "struct S1 { struct { uint8 a; } *p; uint8 z; };\n", "deps": [], "names": ["S1"]}], "consts": [], "compiled": False, "keywords": False, "api_aliases": []})
add("C04", "fixed-sizeof-multi-word-name", "3a9608c: sizeof(long long) raised 'Invalid sizeof operation'",
    {"stage": "aliases", "alias": "long long", "kind": "int", "size": 8, "align": False, "compiled": False})
add("C03", "fixed-compiled-custom-type-array", "5879909: a fixed array of a custom static-size type was dropped by the compiled reader",
    {"stage": "custom-types", "custom": True, "members": ["offbyone b2[2];", "", ""], "endian": "<", "align": False, "data": bytes(range(120)).hex(), "cut": 50})

for prop, name, note, case in R:
    d = os.path.join(VERIF, "replays", prop)
    os.makedirs(d, exist_ok=True)
    with open(os.path.join(d, name + ".json"), "w") as fh:
        json.dump({"property": prop, "note": note, "case": case}, fh, indent=1)
print(len(R), "replays written")
