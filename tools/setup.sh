#!/bin/sh
# Offline, idempotent: hypothesis into /venv (already there on this image), atheris into /verif/.deps.
HERE="$(cd "$(dirname "$0")/.." && pwd)"
W=/opt/veriftools/wheels
/venv/bin/python -c "import hypothesis" 2>/dev/null || /venv/bin/pip install -q --no-index --find-links "$W" hypothesis || exit 1
/venv/bin/python -c "import sys; sys.path.append('$HERE/.deps'); import atheris" 2>/dev/null || \
  /venv/bin/pip install -q --no-index --find-links "$W" --target "$HERE/.deps" atheris || echo "atheris unavailable: fuzz stages will be skipped"
mkdir -p "$HERE/evidence"
exit 0
