#!/usr/bin/env python3
"""Regenerates MANIFEST.json from the table below (kept valid against /root/.vp/MANIFEST.schema.json)."""
import json
import os

VERIF = os.path.dirname(os.path.dirname(os.path.abspath(__file__)))

TRUST = (
    "trusted base: CPython (int.from_bytes/to_bytes, struct, ctypes, codecs), Hypothesis, and this repository's "
    "independent reference model under pbt/ (refsem.py, exprref.py), which never imports dissect and is cross-checked "
    "against ctypes/Python at the start of each run; a pass is evidence over the explored cases, not a proof"
)

CHECKS = {
    "C10": dict(
        technique="property-based testing: Hypothesis AST generator + exhaustive small-scope token enumeration against an independent precedence-climbing evaluator; evaluation histories on one Expression object",
        text="generated-input search: thousands of random expression ASTs with evaluation histories plus exhaustive enumeration of all expressions with <=2 (quick) / <=3 (thorough) binary operators; compared with Python big-int evaluation of the AST",
        design_ref="DESIGN.md §4 C10",
    ),
}

CHECKS.update({
    "C02": dict(
        technique="property-based testing: Hypothesis definition+input generator, oracle = independent reference decoder producing the mask of data-carrying bits; dumps compared bitwise against the input under the mask",
        text="generated-input search over definitions x configurations x canonical inputs with garbage in every padding/unassigned bit; the oracle is a reference model of the layout written from the C rules, so both directions are checked (data bits reproduced, non-data bits zero, length == consumed)",
        design_ref="DESIGN.md §4 C02",
    ),
    "C03": dict(
        technique="differential property-based testing: same generated definition loaded compiled and interpreted, compared on constructive inputs, every truncation and raw bytes; exhaustive enumeration of all field-kind triples",
        text="differential search compiled vs interpreted reader over generated definitions x inputs (values, consumed bytes, recorded sizes, layout, outcome asymmetry on short input), plus an exhaustive enumeration of all 14^3 field-kind triples in packed and aligned mode with all cut points",
        design_ref="DESIGN.md §4 C03",
    ),
})

CHECKS.update({
    "C01": dict(
        technique="property-based testing: round-trip oracle (dumps then parse) over generated definitions and values (parsed and directly constructed), negative class of out-of-range integers that must be rejected, exhaustive scalar boundary table",
        text="generated-input search: round-trip of values obtained by parsing constructive/raw inputs and by direct construction, compared by canonical value, library ==, consumed bytes and size; every integer/enum/pointer leaf position is attacked with out-of-range neighbours which must raise; all integer types x endian x boundary values enumerated",
        design_ref="DESIGN.md §4 C01",
    ),
})

CHECKS.update({
    "C04": dict(
        technique="property-based testing with an external differential oracle: ctypes Structure/Union with identical members (C ABI) plus the independent reference layout; exhaustive enumeration of all short field sequences; five-way size agreement",
        text="exhaustive enumeration of every sequence of <=3 (quick) / <=4 (thorough) fields over 12 kinds in packed and aligned mode and Hypothesis-generated nested definitions, each compared member by member against ctypes (sizeof, alignment, offsets) and against the reference layout; definitions with dynamically sized members are compared with the reference layout too (alignment of every structure, offsets in front of the first dynamic member); len(T), sizeof(T) in an expression, bytes consumed, len(T().dumps()) and len(parsed.dumps()) must all equal the reference size",
        design_ref="DESIGN.md §4 C04",
    ),
})

CHECKS.update({
    "C06": dict(
        technique="exhaustive small-scope enumeration (all width sequences of an 8-bit unit x all 256 contents x endian x storage x reader; 16-bit units sampled) + Hypothesis bit-field-heavy definitions against an independent bit-slicing reference; negative class of straddling sequences",
        text="exhaustive for 8-bit storage units (every width sequence, every unit value, both byte orders, signed/unsigned/enum storage, both readers; parse, dump and construct directions) and generated search beyond (8..64-bit storage, enum/flag storage, unit switches, dynamic/aligned neighbours); straddling definitions must be rejected at load in both modes",
        design_ref="DESIGN.md §4 C06",
    ),
    "C07": dict(
        technique="property-based testing: Hypothesis array-heavy definitions and stand-alone array types against the independent reference decoder/encoder; metamorphic ragged-tail cases for x[EOF]; negative class of wrong-length dumps",
        text="generated search over element kinds x the four length forms (field arrays in both readers, stand-alone cs.T[n]/cs.T[None], multi-dimensional, null-terminated arrays of all-integer structures, expression lengths incl. negative results), element count/contents/consumed bytes/terminator checked against the reference; x[EOF] over ragged tails may raise but never returns a partial element; fixed arrays dumped with len != n must raise; float arrays terminated by either spelling of zero (+0.0 / -0.0) are enumerated",
        design_ref="DESIGN.md §4 C07",
    ),
})

CHECKS.update({
    "C08": dict(
        category="fault_enumeration",
        technique="fault enumeration inside property-based testing: for each generated definition and input every cut point and every read-call index x three injected stream faults is executed; oracle = reference mask of data-carrying bytes + full-input value",
        text="per generated case the truncation points and the stream-fault positions are enumerated exhaustively (every k < consumed; every read call x {short read, empty read, OSError}); a parse must raise EOFError when a data-carrying byte is missing, may only return the full-input value otherwise, injected errors never yield a value, and a final re-parse shows no residue",
        design_ref="DESIGN.md §4 C08",
    ),
    "C09": dict(
        technique="metamorphic property-based testing: the same generated input re-parsed at generated offsets behind/in front of different random bytes, through 6 input kinds x 4 call forms and as back-to-back read sequences, against the offset-0 bytes baseline and the reference consumed length",
        text="metamorphic search: value, recorded sizes and final stream position must be invariant under start offset, surrounding bytes, input object kind (bytes, bytearray, memoryview, BytesIO, minimal file-like, real file) and call form; sequences of reads on one stream return the solo values and accumulate positions",
        design_ref="DESIGN.md §4 C09",
    ),
})

CHECKS.update({
    "C05": dict(
        technique="exhaustive/boundary enumeration of every alias x endian x value against int.from_bytes/struct/codecs/reference LEB128, with an alias table derived from the names; Hypothesis operation histories (load, flip endian, parse, dump) against the reference under the current endianness",
        text="every name of the built-in type table is checked against a width/signedness table written from the names, with all values for 8-bit (16-bit in thorough) types and boundary/pseudo-random values beyond, in both directions; generated histories flip cs.endian between uses of scalars, arrays and (compiled) structures",
        design_ref="DESIGN.md §4 C05",
    ),
    "C12": dict(
        technique="property-based testing: Hypothesis enum/flag declarations (expressions, aliases, gaps, all underlying types, both parsers) x exhaustive 8-bit / sampled wider underlying values x contexts, against reference C numbering and integer identities",
        text="generated declarations are checked for C auto-numbering (reference evaluator for member expressions) and, for every underlying value of 8-bit types and sampled values beyond, for value preservation, dump fidelity, int equality, class-scoped equality and hash stability, as scalar, array element, null-terminated array, bit-field and struct field in both readers",
        design_ref="DESIGN.md §4 C12",
    ),
    "C19": dict(
        technique="property-based testing: independent parser of the hexdump layout, ANSI-stripping metamorphic relation for palettes, dumpstruct containment checks on generated parsed structures, round-trip/differential checks of pack/unpack/swap against int.to_bytes; exhaustive helper table",
        text="generated byte strings/offsets/prefixes/palettes are parsed back by an independent reader of the documented layout; coloured output must equal uncoloured output after stripping ANSI codes; dumpstruct must contain the hex dump of the structure's bytes and list every field; integer helpers are compared with int.to_bytes/from_bytes over all endian spellings",
        design_ref="DESIGN.md §4 C19",
    ),
})

CHECKS.update({
    "C17": dict(
        technique="property-based testing: generated structures with same-field-count sibling classes alive, instance pairs (equal / differing in one field / other class), constructor splits and single-field assignments, against the reference zero values and reference encodings; exhaustive field counts 0..12",
        text="generated search over definitions x instance pairs x constructor argument splits x assignments: == must hold exactly for same class and equal fields, hash must agree on equal instances, bool must be any-field-truthy, T(*pos, **kw) must equal default+setattr with reference zero values elsewhere, and dumps before/after an assignment must equal the reference encodings of the old/new tree (locality); every field count 0..12 enumerated in three name orders; structure values reached through unions are checked for truth / == / hash against the value computed from the reference, and for != against the same declaration loaded under a second name",
        design_ref="DESIGN.md §4 C17",
    ),
})

CHECKS.update({
    "C18": dict(
        technique="property-based testing over build histories: the same generated field sequence is constructed four ways (text struct, text typedef, API one-shot, API incremental along a generated commit split) and compared (layout, compiled flag, generated source, behaviour); every intermediate commit is compared with the one-shot prefix",
        text="generated field sequences x commit splits x compiled/aligned: the four constructions must agree on layout signature, __compiled__, generated reader source, parse results/sizes/tell/dumps on constructive and truncated inputs and on default/eq/bool behaviour; after each intermediate commit the incremental class must equal the one-shot class of that prefix; self-referential pointer members included",
        design_ref="DESIGN.md §4 C18",
    ),
})

CHECKS.update({
    "C14": dict(
        technique="model-based stateful property testing: generated operation histories over several cstruct objects and a pool of instances, with a per-instance deep-copied model and invariants checked after every step",
        text="generated histories (construct / keyword-construct / partial construct / parse / assign / in-place mutate arrays and nested structures / append / dump / flip endianness / load / alias / #define / failing parse) over 1-3 cstruct objects whose same-named types differ; after every step every live instance must equal its own model, T() must equal the reference zero value and parse/dump must equal the reference under that object's current endianness",
        design_ref="DESIGN.md §4 C14",
    ),
})

CHECKS.update({
    "C11": dict(
        technique="model-based property testing: generated fixed-size unions and assignment histories checked against a one-bytearray reference model (decode of every member view and reference encoding of the assigned member) after every step",
        text="generated unions (scalar/array/nested struct/anonymous struct/nested union/bit-field members, packed and aligned, top-level and embedded) x contents x histories of whole-member, nested-path, anonymous-field and keyword assignments and re-parses (a third of the top-level unions are declared without their last members, used, and completed through add_field first; a quarter are loaded under another byte order which is then switched); after every step all member views must equal the reference decode of one shared buffer, the assigned member's bytes must be exactly its reference encoding, size == consumed == max member size rounded to the alignment, and dumps must reproduce the buffer on data-carrying bits (the recorded union-writer finding is judged against a writer-faithful model)",
        design_ref="DESIGN.md §4 C11",
    ),
})

CHECKS.update({
    "C15": dict(
        engine="sched-linetrace",
        technique="systematic schedule exploration inside property-based testing: a harness-owned scheduler (sys.settrace line events or sys.monitoring instruction events + baton) makes thread interleavings generated data; every single-preemption schedule is enumerated per generated definition at line and at bytecode-instruction granularity and for the first (cold) use of a fixed definition family, every two-preemption schedule of that family is enumerated, multi-preemption schedules are drawn by Hypothesis; oracle = solo result per thread",
        text="for each generated definition (expression-length arrays, bit-fields, unions, pointers; compiled and interpreted) 2-3 real threads parse and dump their own bytes with the shared types under a deterministic scheduler: all single-preemption schedules at source-line granularity are enumerated (also at bytecode-instruction granularity for further definitions, and for the very first use of freshly loaded types of a fixed six-definition family), every two-preemption schedule 0->1->0 of that family is enumerated, schedules with up to 4 preemptions are generated; every thread must obtain exactly its solo result",
        design_ref="DESIGN.md §4 C15",
    ),
})

CHECKS.update({
    "C16": dict(
        technique="property-based testing over generated heap images: a header of pointer fields/arrays plus targets at generated absolute addresses, checked against the reference decoder at those addresses; stream-position, stability, null/past-the-end and pointer-arithmetic oracles",
        text="generated images x pointer width {8,16,32,64} x endian x reader: header size and field offsets must follow the configured width, int(p) the unsigned stored address, dereference must equal the reference decode at that absolute offset (strings for char*), leave tell() unchanged even when it fails, stay stable after other dereferences, raise NullPointerDereference for null/stream-less and EOFError past the end; p+n / p-n keep type and stream; dumps reproduces the addresses; a repeated dereference returns the object the first one returned; arithmetic on null pointers read from the image",
        design_ref="DESIGN.md §4 C16",
    ),
})

CHECKS.update({
    "C13": dict(
        technique="metamorphic property-based testing: generated definition sets are edited (trivia inserted at token boundaries, CRLF, dependency-respecting permutations, split loads) and the resulting type/constant signatures and parse behaviour compared with the unedited base; alias identity and resolve-error checks with a watchdog",
        text="generated definition texts x generated edits: inserting comments/whitespace at token boundaries, permuting independent items and splitting the text over several load() calls must leave every user-visible name with the same kind, size, alignment, fields, offsets, enum values, constants and the same parse results; typedef chains/multi-names/built-in synonyms must be the identical type object, same-target re-declaration accepted, different-target refused, unknown and cyclic aliases a ResolveError (no hang)",
        design_ref="DESIGN.md §4 C13",
    ),
})

CHECKS.update({
    "C20": dict(
        technique="property-based testing: generated definition sets loaded through load() (plus API aliases), stub text parsed with ast and compared structurally with the live cstruct object (names both ways, constants as literals, enum members, field order, type hints decoded to type objects)",
        text="for generated definition sets the stub must parse as Python; every user type/alias/constant must be declared and everything declared must exist on the cstruct object; constants must be Literal[value]; enum stubs must list exactly the members; each structure's annotated fields must equal T.fields in order and each hint (Array[..], Pointer[..], CharArray, WcharArray, cstruct.X, inline class) must denote the field's actual type object; keyword field names are a separately counted class tied to a recorded finding",
        design_ref="DESIGN.md §4 C20",
    ),
})

NOT_YET = {}


def main():
    props = [json.loads(l) for l in open(os.path.join(VERIF, "properties.jsonl"))]
    checks = []
    na = []
    for p in props:
        pid = p["id"]
        if pid in CHECKS:
            c = CHECKS[pid]
            checks.append(
                {
                    "property_id": pid,
                    "quick_cmd": f"./check {pid} --tier quick",
                    "thorough_cmd": f"./check {pid} --tier thorough",
                    "evidence_file": f"evidence/{pid}.json",
                    "replay_cmd_template": f"./check {pid} --replay {{path}}",
                    "engine": c.get("engine", "pbt-hypothesis"),
                    "level_claimed": {
                        "category": c.get("category", "exploration"),
                        "text": c["text"],
                        "design_ref": c["design_ref"],
                    },
                    "level_note": c.get("note", TRUST),
                    "technique": c["technique"],
                }
            )
        else:
            na.append({"property_id": pid, "reason": NOT_YET.get(pid, "check not built yet in this session; not claimed until a sound and sensitive check exists")})
    manifest = {
        "version": 1,
        "setup_cmd": "sh tools/setup.sh",
        "hooks": {
            "guard": "FOX_IT_DISSECT_CSTRUCT_VERIF",
            "enable": "no hooks are needed: every check observes the library through its public API (and sys.settrace for schedules); the guard variable is reserved and unused",
            "baseline_off_cmd": "cd /repo && /venv/bin/python -m pytest -ra -q -p no:cacheprovider --timeout=900 --continue-on-collection-errors",
            "source_commits": [],
            "add_only": True,
        },
        "engines": [
            {"name": "pbt-hypothesis", "path": "pbt/drive.py", "serves_properties": sorted(CHECKS), "kind_free_text": "sharded Hypothesis search + exhaustive small-scope enumeration with explicit oracles, replay files, known-finding predicates"},
            {"name": "sched-linetrace", "path": "pbt/sched.py", "serves_properties": ["C15"], "kind_free_text": "deterministic thread scheduler at source-line (sys.settrace) or bytecode-instruction (sys.monitoring) granularity with per-thread semaphores; schedules are generated/enumerated data"},
            {"name": "refsem", "path": "pbt/refsem.py", "serves_properties": [], "kind_free_text": "independent reference semantics (layout, decode with data mask, encode, defaults)"},
        ],
        "checks": checks,
        "not_applicable": na,
        "notes": "All checks: exit 0 held / 1 VIOLATION line / 2 harness error. VERIF_SEED and VERIF_TIER honoured; VERIF_REPO overrides /repo for the sensitivity self-test.",
    }
    with open(os.path.join(VERIF, "MANIFEST.json"), "w") as fh:
        json.dump(manifest, fh, indent=1)
    try:
        import jsonschema

        jsonschema.validate(manifest, json.load(open("/root/.vp/MANIFEST.schema.json")))
        print("MANIFEST.json valid;", len(checks), "checks,", len(na), "not claimed")
    except ImportError:
        print("jsonschema not available; wrote MANIFEST.json unvalidated")


if __name__ == "__main__":
    main()
