#!/bin/sh
# usage: tools/quiet.sh "C01 C02 ..." "1 2 3"   -- every check must be quiet (exit 0) at every seed
PROPS="${1:-$(python3 -c "import json;print(' '.join(c['property_id'] for c in json.load(open('MANIFEST.json'))['checks']))")}"
SEEDS="${2:-1 2 3}"
TIER="${3:-quick}"
rc=0
for p in $PROPS; do for s in $SEEDS; do
  out=$(VERIF_SEED=$s VERIF_EVIDENCE_DIR=/tmp/vp-quiet-ev ./check $p --tier $TIER 2>&1); e=$?
  line=$(echo "$out" | grep -v WARNING | tail -1 | cut -c1-160)
  [ $e -ne 0 ] && { rc=1; echo "NOT QUIET: $p seed=$s exit=$e"; echo "$out" | grep -v "WARNING\|KNOWN-FINDING" | head -5 | cut -c1-600; }
  echo "$p seed=$s exit=$e $line"
done; done
rm -rf /tmp/vp-quiet-ev
exit $rc
