#!/bin/sh
# runs every check's thorough tier one after the other (evidence goes to a scratch dir; this is an exploration run)
for p in ${1:-C01 C02 C03 C04 C05 C06 C07 C08 C09 C10 C11 C12 C13 C14 C15 C16 C17 C18 C19 C20}; do
  s=$(date +%s)
  VERIF_EVIDENCE_DIR=./scratch/thorough-ev ./check $p --tier thorough > scratch-$p.log 2>&1; e=$?
  echo "$p exit=$e $(( $(date +%s) - s ))s $(grep -v 'WARNING\|KNOWN' scratch-$p.log | tail -1 | cut -c1-150)"
  [ $e -ne 0 ] && grep -v "WARNING\|KNOWN" scratch-$p.log | grep "^  \|VIOLATION\|HARNESS" | head -6 | cut -c1-1200
done
true
