#!/venv/bin/python -B
"""Dev-time triage: run a property's Hypothesis stages without stopping, bucket violations by signature.

usage: tools/survey.py C02 [examples] [stage] [seed]
"""
import importlib
import json
import os
import sys
from collections import Counter

VERIF = os.path.dirname(os.path.dirname(os.path.abspath(__file__)))
sys.path.insert(0, VERIF)
os.environ.setdefault("PYTHONHASHSEED", "0")

import hypothesis  # noqa: E402
from hypothesis import HealthCheck, Phase, given, settings  # noqa: E402

from pbt import drive  # noqa: E402


def main():
    prop = importlib.import_module(f"props.{sys.argv[1].lower()}")
    n = int(sys.argv[2]) if len(sys.argv) > 2 else 500
    only = sys.argv[3] if len(sys.argv) > 3 and sys.argv[3] != "-" else None
    seed = int(sys.argv[4]) if len(sys.argv) > 4 else 1
    drive.import_repo()
    known = drive.load_known(prop)
    buckets = Counter()
    examples = {}
    ctx = drive.Ctx()
    for stage in prop.stages("quick"):
        if only and stage.name != only:
            continue
        if isinstance(stage, drive.EnumStage):
            if not only:
                continue
            for i, case in enumerate(stage.cases()):
                if i % max(1, 5488 // n) != 0 and n < 5000:
                    continue
                case["stage"] = stage.name
                try:
                    prop.run_case(case, ctx)
                except drive.Violation as v:
                    kid = known.match(case, v)
                    sig = ("KNOWN:" + kid) if kid else v.signature
                    buckets[sig] += 1
                    size = len(json.dumps(case, default=str))
                    if sig not in examples or size < examples[sig][0]:
                        examples[sig] = (size, v.detail, case)
            continue
        if not isinstance(stage, drive.HypStage):
            continue

        @hypothesis.seed(seed)
        @settings(max_examples=n, deadline=None, database=None, phases=[Phase.generate], suppress_health_check=list(HealthCheck))
        @given(stage.strategy())
        def test(case):
            case = dict(case)
            case["stage"] = stage.name
            try:
                prop.run_case(case, ctx)
            except drive.Violation as v:
                kid = known.match(case, v)
                sig = ("KNOWN:" + kid) if kid else v.signature
                buckets[sig] += 1
                size = len(json.dumps(case, default=str))
                if sig not in examples or size < examples[sig][0]:
                    examples[sig] = (size, v.detail, case)

        test()
    print("classes:", dict(ctx.counters))
    print("buckets:")
    for sig, c in buckets.most_common():
        print(f"  {c:6d}  {sig}")
    for sig, (size, detail, case) in examples.items():
        print("=" * 100)
        print(sig)
        print(detail[:3000])
        os.makedirs(os.path.join(VERIF, "scratch"), exist_ok=True)
        with open(os.path.join(VERIF, "scratch", f"{prop.ID}-{abs(hash(sig)) % 10**8}.json"), "w") as fh:
            json.dump({"case": case, "signature": sig}, fh, default=str)


if __name__ == "__main__":
    main()
