#!/bin/sh
# usage: tools/seedeval.sh C10 [/tmp/seed-C10] [name]
# Confirms a seeded change (tests pass with it, DEMO fails with it and passes without), stores it under
# seeded/<name>/ and runs the property's quick check (and optionally all checks) against the changed tree.
ID="$1"; WD="${2:-/tmp/seed-$ID}"; NAME="${3:-$ID}"
HERE="$(pwd)"; OUT="seeded/$NAME"; mkdir -p "$OUT"
git -C "$WD" diff -- dissect > "$OUT/patch.diff"
[ -s "$OUT/patch.diff" ] || { echo "no change in $WD"; exit 2; }
cp "$WD/DEMO.py" "$OUT/DEMO.py" 2>/dev/null; cp "$WD/NOTES.md" "$OUT/NOTES.md" 2>/dev/null
T=$(cd "$WD" && PYTHONPATH="$WD" /venv/bin/python -m pytest -q -p no:cacheprovider 2>&1 | tail -1)
DW=$(cd "$WD" && PYTHONPATH="$WD" /venv/bin/python DEMO.py >/dev/null 2>&1; echo $?)
DD=$(mktemp -d /tmp/vp-demo-XXXXXX); cp "$WD/DEMO.py" "$DD/DEMO.py"   # away from the worktree: sys.path[0] is the script's directory
DO=$(cd "$DD" && PYTHONPATH=/repo /venv/bin/python DEMO.py >/dev/null 2>&1; echo $?); rm -rf "$DD"
echo "tests with change: $T"
echo "DEMO with change exit=$DW ; on the unchanged repo exit=$DO"
# the checks run against a copy of the CURRENT /repo with the patch applied (the worktree may predate later fixes)
RUN=$(mktemp -d /tmp/vp-seedrun-XXXXXX); mkdir -p "$RUN/repo"; (cd /repo && tar -c --exclude=.git --exclude=__pycache__ . ) | tar -x -C "$RUN/repo"
if ! (cd "$RUN/repo" && patch -p1 -s < "$HERE/$OUT/patch.diff"); then echo "patch does not apply to current /repo"; fi
WD_RUN="$RUN/repo"
RES=""
for P in ${SEED_PROPS:-$ID}; do
  for S in ${SEED_SEEDS:-1}; do
    o=$(VERIF_NO_SHRINK=${VERIF_NO_SHRINK:-1} VERIF_SEED=$S VERIF_REPO="$WD_RUN" VERIF_EVIDENCE_DIR=/tmp/vp-seed-ev ./check $P --tier quick 2>&1); e=$?
    k=$(echo "$o" | grep -v "WARNING\|KNOWN-FINDING" | grep "^  " | head -1 | cut -c1-160)
    echo "check $P seed=$S exit=$e $k"
    RES="$RES $P:seed$S:exit$e"
  done
done
rm -rf /tmp/vp-seed-ev "$RUN"
python3 - "$OUT" "$ID" "$T" "$DW" "$DO" "$RES" <<'EOF'
import json, sys, os
out, pid, tests, dw, do, res = sys.argv[1:7]
meta = {"breaks_property": pid, "tests_with_change": tests.strip(), "demo_exit_with_change": int(dw), "demo_exit_on_unchanged_repo": int(do),
        "checks_run": res.split(), "needs": (open(os.path.join(out, "NOTES.md")).read()[:1500] if os.path.exists(os.path.join(out, "NOTES.md")) else "")}
old = {}
p = os.path.join(out, "meta.json")
if os.path.exists(p):
    old = json.load(open(p))
old.update(meta)
json.dump(old, open(p, "w"), indent=1)
EOF
